"""C43 XFCC identity extraction is injection-proof (DESIGN §5 C43).

(O1) ``_split_respecting_quotes(text, d)`` for d in {",", ";"} (its two call sites), any text: the
loop invariant ties the consumed prefix to the parts by a *string equation*
``join-so-far + current == text[:i]`` and to the quote automaton by *regular languages*:
with  N = [^"\\],  E = \\.,  Q = " (N|E)* "  (a balanced quoted segment),
R = ([^"d] | Q)*  (balanced, no top-level delimiter),  RIN = R " (N|E)*  (inside an open quote),
every completed part is in R and the current part is in R / RIN according to ``in_quotes``.  Post:
``d.join(parts) == text`` (nothing lost, merged or invented) and text = p0 d p1 d … pm with every
p_j (j<m) in R and p_m in R | RIN | RIN\\ — since the R-parse of a string is deterministic this is
*the* decomposition at exactly the delimiters outside quotes.  (L2) corollary: a text in R (all its
delimiters inside balanced quoted segments) is never split.
(O3) ``mtls_authenticate_xfcc``: header absent ⇒ AuthFailure(PROXY_REQUIRED); non-empty header that
yields no element ⇒ AuthFailure(INVALID_CREDENTIAL); otherwise the identity depends on
``elements[0]`` / ``elements[-1]`` only (dependency obligation on a symbolic-length element list).
(B1-B3, bounded, not proof) the regex spec itself, the element count of ``_parse_xfcc`` and the
render/parse round trip of quoted values are checked exhaustively on short strings.
"""

from __future__ import annotations

import itertools
import re

import z3

import vgi_rpc.http._mtls as mt
from pyvc.api import *  # noqa: F403
from pyvc.api import BoundedResult, ReplayResult, bounded, unit
from vgi_rpc.http._unauthorized import AuthFailure, AuthReason

MANIFEST = {
    "level_text": "Deductive proof (unbounded text, both delimiters used by the parser) that _split_respecting_quotes loses, merges and invents nothing (delimiter.join(parts) == text) and splits exactly at the delimiters outside double-quoted segments with backslash escapes (regular-language loop invariant for the quote automaton; corollary: delimiters inside balanced quoted values never split), and that mtls_authenticate_xfcc rejects an absent header with proxy_required, a non-empty header without elements with invalid_credential, and otherwise builds the identity (or the validate() argument) from the first / last element only, for any number of elements. The element count of _parse_xfcc, the regex specification itself and the quoting round trip are covered by exhaustive bounded checks only.",
    "level_note": "_parse_xfcc's own loop (strip / find / unquote / dict building) and _extract_cn / _unescape_quoted are NOT reduced to contracts: bounded exhaustive stand-ins (strings <= 6 over {a , ; \" \\}, <= 5 over 7 symbols, generated XFCC elements). The zero-length header value '' is classified proxy_required by the code (whitespace or ',' give invalid_credential): accepted as either reason, see ASSUMPTIONS. str.strip / urllib unquote are library code. Engine + z3 sequence/regex theory trusted.",
    "technique": "contract-based deductive verification: loop invariant = word equation + regular-language membership (quote automaton), ghost join of the parts list, dependency obligation over a symbolic-length list; bounded exhaustive stand-ins for the unreduced parts",
    "design_ref": "DESIGN.md §5 C43",
}
EXPLANATION = MANIFEST["level_text"]
TRUSTED = [
    "pyvc VC generator; z3 5.1.0 sequence + regular-expression theory (cvc5 on z3's unknowns)",
    "ghost folds of a list maintained at append: ''.join(current) (engine `cat`) and the delimiter-join of `parts` (JList in this file)",
    "CPython str indexing / == on code points",
]
ASSUMPTIONS = [
    "the delimiter is ',' or ';' (the only call sites, both in _parse_xfcc)",
    "a zero-length header value: falcon/WSGI deliver '' for a header sent with an empty value (HTTP_X_FORWARDED_CLIENT_CERT = ''), and the code treats it like an absent header (proxy_required). The property's 'missing or empty … proxy_required or invalid_credential respectively' does not say on which side a zero-length value falls; both are rejections, so O3 accepts either reason for '' and demands proxy_required only for an absent header and invalid_credential only for a non-empty header that yields no element",
    "XfccElement fields that are None and fields that are '' are not distinguished (the code only tests their truthiness)",
    "_parse_xfcc and _extract_cn are used by contract in O3 (any list of elements / an uninterpreted function of the subject): their own behaviour is only covered by the bounded stand-ins",
]

# ------------------------------------------------------------------------------------------
# the quote automaton as regular languages
# ------------------------------------------------------------------------------------------

STR = z3.StringSort()
ANY = z3.AllChar(z3.ReSort(STR))


def lit(c):
    return z3.Re(z3.StringVal(c))


def no(*chars):
    return z3.Diff(ANY, z3.Union(*[lit(c) for c in chars]) if len(chars) > 1 else lit(chars[0]))


N = no('"', "\\")
E = z3.Concat(lit("\\"), ANY)
BODY = z3.Star(z3.Union(N, E))
QSEG = z3.Concat(lit('"'), BODY, lit('"'))


def langs(d):
    R = z3.Star(z3.Union(no('"', d), QSEG))
    RIN = z3.Concat(R, lit('"'), BODY)
    RIN_BS = z3.Concat(RIN, lit("\\"))  # an open quote ending in a lone backslash: only possible at end of text
    DONE = z3.Star(z3.Concat(R, lit(d)))  # completed parts, each followed by the delimiter
    return R, RIN, RIN_BS, DONE


def py_langs(d):
    body = r'(?:[^"\\]|\\.)*'
    q = '"' + body + '"'
    R = r"(?:[^\"" + re.escape(d) + r"]|" + q + r")*"
    RIN = R + '"' + body
    return re.compile(R, re.S), re.compile(RIN + r"\\?", re.S)


# ------------------------------------------------------------------------------------------
# ghost: the delimiter-join of a list that only grows by append
# ------------------------------------------------------------------------------------------


class JList(SList):
    """SList of str with the ghost fold  jd = e0+d+e1+d+…  (every element followed by the delimiter):
    `base_jd` for the elements present when the list was havocked, then one term per append."""

    def __init__(self, inner, d, base_jd):
        super().__init__(inner.shape, inner.getf, inner.length, inner.cat)
        self.d, self.base_jd, self.appended = d, base_jd, []

    def append(self, v):
        super().append(v)
        self.appended.append(strterm(v))

    def jd(self, upto=None):
        t = self.base_jd
        for e in self.appended[:upto]:
            t = z3.Concat(t, e, z3.StringVal(self.d))
        return t


class JListShape(Shape):
    def __init__(self, d):
        self.d = d

    def fresh(self, name):
        return JList(ListShape(StrShape).fresh(name), self.d, z3.String(fresh_name(name + "_joined")))


def jd_of(parts, d):
    if isinstance(parts, JList):
        return parts.jd()
    if isinstance(parts, list):
        t = z3.StringVal("")
        for e in parts:
            t = z3.Concat(t, strterm(e), z3.StringVal(d))
        return t
    raise Unsupported(f"parts is {parts!r}")


def consumed_chars(term):
    """maximal String subterms of `term` built from str.substr (possibly under the index-normalising ite)"""
    out, seen = [], set()

    def has_substr(x):
        return x.decl().kind() == z3.Z3_OP_SEQ_EXTRACT or any(has_substr(c) for c in x.children())

    def walk(x):
        if x.get_id() in seen:
            return
        seen.add(x.get_id())
        k = x.decl().kind()
        if k == z3.Z3_OP_SEQ_EXTRACT or (k == z3.Z3_OP_ITE and x.sort() == STR and has_substr(x)):
            out.append(x)
            return
        for c in x.children():
            walk(c)

    walk(term)
    return out


def cat_of(cur):
    if isinstance(cur, SList):
        if cur.cat is None:
            raise Unsupported("current lost its concatenation ghost")
        return cur.cat
    t = z3.StringVal("")
    for e in cur:
        t = z3.Concat(t, strterm(e))
    return t


# ------------------------------------------------------------------------------------------
# reference (specification) splitter used by replays and bounded checks: straight from the languages
# ------------------------------------------------------------------------------------------


def spec_split(text, d):
    """The unique decomposition text = p0 d p1 d … pm with p_j in R (j<m): cut at the first delimiter
    whose prefix is in R (the R-parse is deterministic, so scanning prefixes finds it)."""
    R, _ = py_langs(d)
    out, start = [], 0
    for i, c in enumerate(text):
        if c == d and R.fullmatch(text, start, i):
            out.append(text[start:i])
            start = i + 1
    out.append(text[start:])
    return out


def judge_split(text, d):
    got = mt._split_respecting_quotes(text, d)
    R, RLAST = py_langs(d)
    problems = []
    if d.join(got) != text:
        problems.append(f"join gives {d.join(got)!r}")
    if got != spec_split(text, d):
        problems.append(f"parts {got!r} but the delimiters outside quotes give {spec_split(text, d)!r}")
    if not got:
        problems.append("no part at all")
    elif any(not R.fullmatch(p) for p in got[:-1]) or not (R.fullmatch(got[-1]) or RLAST.fullmatch(got[-1])):
        problems.append("a part is unbalanced or holds a top-level delimiter")
    return problems


def replay_split(inputs, ob, _search=True):
    text, d = inputs.get("text", ""), inputs.get("delimiter", ",")
    text = text if isinstance(text, str) else ""
    problems = judge_split(text, d)
    if not problems and _search:
        # the counter-model of a loop-invariant VC is a loop *state*, not necessarily a failing call:
        # hunt natively for a failing input (all strings of length <= 6 over {a , ; " \})
        found = search_split(ob, 0)
        if found is not None:
            return found[1]
    return ReplayResult(bool(problems), f"_split_respecting_quotes({text!r}, {d!r}) -> {mt._split_respecting_quotes(text, d)!r}: " + "; ".join(problems))


def search_split(ob, seed):
    for n in range(0, 7):
        for tup in itertools.product('a,;"\\', repeat=n):
            text = "".join(tup)
            for d in ",;":
                if judge_split(text, d):
                    inputs = {"text": text, "delimiter": d}
                    return inputs, replay_split(inputs, ob, _search=False)
    return None


# ------------------------------------------------------------------------------------------
# O1 _split_respecting_quotes
# ------------------------------------------------------------------------------------------


@unit("C43.O1 _split_respecting_quotes (+L2)", targets=["vgi_rpc/http/_mtls.py::_split_respecting_quotes"], replay=replay_split, search=search_split, min_obligations=12)
def split(S):
    d = [",", ";"][S.choose(2, "delimiter")]
    S.inputs["delimiter"] = d
    text = S.str("text")
    t = text.t
    n = z3.Length(t)
    R, RIN, RIN_BS, DONE = langs(d)
    Q = "_split_respecting_quotes"
    calls = {"n": 0}

    def mentions(c, pred):
        seen, stack = set(), [c]
        while stack:
            x = stack.pop()
            if x.get_id() in seen:
                continue
            seen.add(x.get_id())
            if pred(x):
                return True
            stack.extend(x.children())
        return False

    def is_membership(x):
        return z3.is_app(x) and x.decl().kind() == z3.Z3_OP_SEQ_IN_RE

    def is_prefix_extract(x):
        return z3.is_app(x) and x.decl().kind() == z3.Z3_OP_SEQ_EXTRACT and z3.is_int_value(x.arg(1)) and x.arg(1).as_long() == 0

    head = {"subs": []}

    def is_string_term(x):
        return z3.is_expr(x) and x.sort() == STR and not z3.eq(x, t)

    def is_substr(x):
        return z3.is_app(x) and x.decl().kind() == z3.Z3_OP_SEQ_EXTRACT

    def char_literal_fact(c):
        """text[k] == "c" / text[k] != "c"  (a branch condition on a consumed character)"""
        if z3.is_not(c):
            c = c.arg(0)
        if not z3.is_eq(c) or c.arg(0).sort() != STR:
            return False
        a_, b_ = c.arg(0), c.arg(1)
        return (z3.is_string_value(a_) and mentions(b_, is_substr) and not mentions(b_, is_prefix_extract)) or (z3.is_string_value(b_) and mentions(a_, is_substr) and not mentions(a_, is_prefix_extract))

    def word_fact(c):
        """boolean combination of integer facts and character/literal comparisons"""
        if z3.is_and(c) or z3.is_or(c) or z3.is_not(c) and not z3.is_eq(c.arg(0)) or z3.is_implies(c):
            return all(word_fact(x) for x in c.children())
        return char_literal_fact(c) or not mentions(c, is_string_term)

    def emit(name, goal, theory, extra=()):
        """One loop-invariant obligation with *selected hypotheses* (a subset of the path condition:
        still sound).  z3's sequence solver is unstable when word equations, substr terms and
        regular-language constraints meet in one query, so each clause gets the hypotheses of its theory:
        arith = integer facts only; word = integer facts + comparisons of a consumed character with a
        literal; plain = no membership and no substr; re = everything but the prefix word equation."""
        full = S.pc
        if theory == "arith":
            S.pc = [c for c in full if not mentions(c, is_string_term)]
        elif theory == "word":
            S.pc = [c for c in full if word_fact(c)]
        elif theory == "plain":
            S.pc = [c for c in full if not mentions(c, is_membership) and not mentions(c, is_substr)]
        else:
            # regular-language reasoning: the consumed characters are named constants of length 1
            # (head["subs"]), every other fact about text positions is dropped
            subs = head.get("subs") or []
            S.pc = [h for h in (z3.substitute(c, *subs) if subs else c for c in full) if not mentions(h, is_substr)]
        S.pc = S.pc + list(extra)
        try:
            S.oblige(name, goal, kind="inv-" + name.rsplit(".", 1)[1])
        finally:
            S.pc = full

    def atoms(x):
        """flatten a concatenation into its atoms"""
        if z3.is_app(x) and x.decl().kind() == z3.Z3_OP_SEQ_CONCAT:
            return [a_ for c in x.children() for a_ in atoms(c)]
        if z3.is_string_value(x) and x.as_string() == "":
            return []
        return [x]

    def cat(xs):
        xs = list(xs)
        return z3.StringVal("") if not xs else (xs[0] if len(xs) == 1 else z3.Concat(*xs))

    def inv(L):
        calls["n"] += 1
        tag = {1: "init", 3: "pres"}.get(calls["n"])  # the engine calls: init check, assume at the head, back-edge check
        i = L.i
        it = i.t if isinstance(i, SInt) else z3.IntVal(i)
        cur, jd, inq = cat_of(L.current), jd_of(L.parts, d), L.in_quotes
        plen = L.parts.length if isinstance(L.parts, SList) else z3.IntVal(len(L.parts))
        inq_t = boolterm(inq)

        def clauses(jd_, cur_, word_lhs):
            return [
                ("index_in_range", And(SBool(it >= 0), SBool(it <= n)), "arith"),
                ("consumed_prefix_is_joined_parts_plus_current", SBool(word_lhs == z3.SubString(t, 0, it)), "word"),
                ("completed_parts_are_balanced_without_top_level_delimiter", SBool(z3.InRe(jd_, DONE)), "re"),
                # three implications with single memberships (a boolean Or of two memberships under an If is
                # beyond z3's regex reasoning; a Union inside one membership is not)
                ("inside_quotes_the_current_part_is_an_open_quote", Implies(And(SBool(inq_t), SBool(it < n)), SBool(z3.InRe(cur_, RIN))), "re"),
                ("inside_quotes_at_the_end_it_may_end_in_a_lone_backslash", Implies(SBool(inq_t), SBool(z3.InRe(cur_, z3.Union(RIN, RIN_BS)))), "re"),
                ("outside_quotes_the_current_part_is_balanced", Implies(Not(SBool(inq_t)), SBool(z3.InRe(cur_, R))), "re"),
                ("no_parts_iff_nothing_joined", SBool((plen == 0) == (jd_ == z3.StringVal(""))), "plain"),
            ]

        if tag is None:  # assumed at the loop head; remember the head state for the back-edge rewriting
            head.update(atoms=atoms(z3.Concat(jd, cur)), i=it, subs=[])
            return [(nm, g) for nm, g, _ in clauses(jd, cur, z3.Concat(jd, cur))]
        if tag == "init":
            for nm, g, theory in clauses(jd, cur, z3.Concat(jd, cur)):
                emit(f"{Q}.loop0.{nm}.init", g, theory)
            return [("checked_by_the_contract_with_selected_hypotheses", True)]
        # ---- back edge ----------------------------------------------------------------------------
        # (1) word equation: rewrite the head part of  joined ++ current  with the head invariant
        #     (joined0 ++ current0 == text[:i0], equals for equals), leaving a pure substr fact
        new_atoms = atoms(z3.Concat(jd, cur))
        h = head["atoms"]
        if len(new_atoms) >= len(h) and all(z3.eq(x, y) for x, y in zip(h, new_atoms)):
            word_lhs = cat([z3.SubString(t, 0, head["i"])] + new_atoms[len(h) :])
        else:
            word_lhs = z3.Concat(jd, cur)
        # (2) memberships: the characters consumed in this iteration appear as str.substr(text, <index>, 1)
        #     terms; name each by a fresh constant (definitional assumption; a membership stated on the substr
        #     term itself makes z3 diverge) and split on the class of the first one, substituting the
        #     constant, so that every case is closed by regex reasoning on `old ++ "c" [++ c2]`.
        sub = []
        pieces = consumed_chars(strterm(L.ch))  # the character read in this iteration (even when it is not kept)
        pieces += [x for x in consumed_chars(z3.Concat(jd, cur)) if not any(z3.eq(x, y) for y in pieces)]
        for k_, piece in enumerate(pieces):
            c = z3.String(S.fresh_name(f"consumed{k_}"))
            emit(f"{Q}.loop0.consumed_piece_{k_}_is_one_character.pres", SBool(z3.Length(piece) == 1), "word")
            S.assume(And(SBool(c == piece), SBool(z3.Length(c) == 1)))
            sub.append((piece, c))
        head["subs"] = sub
        jd_m, cur_m = (z3.substitute(jd, *sub), z3.substitute(cur, *sub)) if sub else (jd, cur)
        cases = [("", [], None)]
        if sub:
            c0 = z3.substitute(strterm(L.ch), *sub)
            other = z3.InRe(c0, no('"', "\\", d))
            S.lemma("O1.consumed_character_is_a_quote_a_backslash_the_delimiter_or_another_single_char", Or(SBool(c0 == z3.StringVal('"')), SBool(c0 == z3.StringVal("\\")), SBool(c0 == z3.StringVal(d)), SBool(other)))
            cases = [(".quote", [c0 == z3.StringVal('"')], (c0, z3.StringVal('"'))), (".backslash", [c0 == z3.StringVal("\\")], (c0, z3.StringVal("\\"))), (".delimiter", [c0 == z3.StringVal(d)], (c0, z3.StringVal(d))), (".other", [other], None)]
        for nm, g, theory in clauses(jd_m, cur_m, word_lhs):
            if theory != "re":
                emit(f"{Q}.loop0.{nm}.pres", g, theory)
                continue
            for suffix, hyp, subst in cases:
                gt = boolterm(g)
                emit(f"{Q}.loop0.{nm}{suffix}.pres", SBool(z3.substitute(gt, subst) if subst else gt), theory, extra=hyp)
        return [("checked_by_the_contract_with_selected_hypotheses", True)]

    S.invariants[(Q, 0)] = inv
    S.loop_havoc[(Q, 0)] = {"current": ListShape(StrShape), "parts": JListShape(d)}
    out = S.outcome(mt._split_respecting_quotes, text, d)
    S.oblige("O1.raises_nothing", out.returned, kind="raises")
    if not out.returned:
        return
    res = out.value
    S.oblige("O1.returns_the_parts_list", isinstance(res, JList) and len(res.appended) == 1, kind="post")
    if not (isinstance(res, JList) and len(res.appended) == 1):
        return
    done, last = res.jd(0), res.appended[0]  # joined completed parts (each followed by d), and the last part
    S.oblige("O1.join_of_the_parts_is_the_text", SBool(z3.Concat(done, last) == t))
    S.oblige("O1.every_completed_part_is_balanced_and_has_no_top_level_delimiter", SBool(z3.InRe(done, DONE)))
    S.oblige("O1.last_part_is_balanced_or_an_unterminated_quote", SBool(z3.InRe(last, z3.Union(R, RIN, RIN_BS))))
    S.oblige("O1.at_least_one_part", SBool(res.length >= 1))
    # L2: if every delimiter of the text sits inside a balanced quoted segment, nothing is split
    S.oblige("L2.delimiters_inside_balanced_quotes_never_split", Implies(SBool(z3.InRe(t, R)), SBool(done == z3.StringVal(""))), kind="lemma")
    S.oblige("L2.then_the_single_part_is_the_text", Implies(SBool(z3.InRe(t, R)), And(SBool(last == t), SBool(res.length == 1))), kind="lemma")
    S.canary("O1.canary.never_splits", SBool(done == z3.StringVal("")))
    S.canary("O1.canary.last_part_always_balanced", SBool(z3.InRe(last, R)))


# ------------------------------------------------------------------------------------------
# O3 mtls_authenticate_xfcc
# ------------------------------------------------------------------------------------------

ELEM = RecShape("XfccElement", hash=StrShape, cert=StrShape, subject=StrShape, uri=StrShape, by=StrShape, dns=OpaqueShape("DnsTuple"))
CN = z3.Function("extract_cn", STR, STR)
DNS_LEN = z3.Function("dns_len", opaque_sort("DnsTuple"), z3.IntSort())
DNS_AT = z3.Function("dns_at", opaque_sort("DnsTuple"), z3.IntSort(), STR)


class FakeReq:
    def __init__(self, hv):
        self.hv = hv

    def get_header(self, name, *a, **k):
        assert name.lower() == "x-forwarded-client-cert"
        return self.hv


def replay_auth(inputs, ob):
    mode, sel = inputs.get("header_mode"), inputs.get("select", "first")
    hv = {"absent": None, "zero_length": ""}.get(mode, inputs.get("header", "x"))
    calls = []

    def validate(el):
        calls.append(el)
        return "CTX"

    auth = mt.mtls_authenticate_xfcc(validate=validate if inputs.get("validate") else None, domain="dom", select_element=sel)
    n = inputs.get("n_elements", 0)
    n = n if isinstance(n, int) else 0
    els = [mt.XfccElement(hash=f"h{j}", subject=f"CN=s{j},O=x", uri=f"u{j}", dns=(f"d{j}",), by=f"b{j}") for j in range(max(0, min(n, 5)))]
    orig = mt._parse_xfcc
    if mode == "non_empty":
        mt._parse_xfcc = lambda h: list(els)
    try:
        try:
            r = auth(FakeReq(hv))
            res = ("returned", r)
        except AuthFailure as e:
            res = ("AuthFailure", e.reason)
    finally:
        mt._parse_xfcc = orig
    problems = []
    if mode == "absent" and res != ("AuthFailure", AuthReason.PROXY_REQUIRED):
        problems.append("absent header must give proxy_required")
    if mode == "zero_length" and not (res[0] == "AuthFailure" and res[1] in (AuthReason.PROXY_REQUIRED, AuthReason.INVALID_CREDENTIAL)):
        problems.append("zero-length header must be rejected")
    if mode == "non_empty" and not els and res != ("AuthFailure", AuthReason.INVALID_CREDENTIAL):
        problems.append("a header without elements must give invalid_credential")
    if mode == "non_empty" and els:
        want = els[0] if sel == "first" else els[-1]
        if inputs.get("validate"):
            if calls != [want] or res != ("returned", "CTX"):
                problems.append("validate() must get exactly the selected element")
        elif res[0] != "returned" or res[1].principal != want.subject[3:].split(",")[0] or res[1].claims.get("hash") != want.hash or res[1].claims.get("by") != want.by:
            problems.append("identity not taken from the selected element")
    return ReplayResult(bool(problems), f"authenticate(header {mode}, {n} elements, select={sel}) -> {res!r}: " + "; ".join(problems))


def element_apps(v, acc):
    """all applications f(idx) of the element-list field functions occurring in a value"""
    seen = set()

    def walk(x):
        if x.get_id() in seen:
            return
        seen.add(x.get_id())
        if z3.is_app(x) and x.num_args() == 1 and x.decl().name().startswith("elements_") and x.arg(0).sort() == z3.IntSort():
            acc.append(x.arg(0))
        for c in x.children():
            walk(c)

    def val(u):
        if isinstance(u, Sym):
            walk(u.t)
        elif isinstance(u, SList):
            walk(u.length)
            j = z3.Int("dep_j")
            val(u.getf(j))
        elif isinstance(u, SObj):
            for f in u.fields.values():
                val(f)
        elif isinstance(u, (list, tuple)):
            for f in u:
                val(f)
        elif isinstance(u, dict):
            for f in u.values():
                val(f)

    val(v)


@unit("C43.O3 mtls_authenticate_xfcc", targets=["vgi_rpc/http/_mtls.py::mtls_authenticate_xfcc", "vgi_rpc/http/_mtls.py::mtls_authenticate_xfcc.<locals>.authenticate"], replay=replay_auth, min_obligations=20, by_contract=["_parse_xfcc", "_extract_cn"])
def authenticate(S):
    sel = ["first", "last"][S.choose(2, "select_element")]
    use_validate = S.choose(2, "validate given") == 1
    mode = ["absent", "zero_length", "non_empty"][S.choose(3, "header")]
    S.inputs.update({"select": sel, "validate": use_validate, "header_mode": mode})
    S.handlers["declare_proxy_headers"] = lambda S, fn, *h: fn
    validate = SObj(None, kind="Validate") if use_validate else None
    ret = SObj(None, kind="UserContext")
    S.handlers["Validate.__call__"] = lambda S, v, el: (S.event("validate", el), ret)[1]
    domain = S.str("domain")
    auth = S.call(mt.mtls_authenticate_xfcc, validate=validate, domain=domain, select_element=sel)
    header = None if mode == "absent" else ("" if mode == "zero_length" else S.str("header"))
    if mode == "non_empty":
        S.assume(SBool(z3.Length(header.t) > 0))
    req = SObj(None, kind="Req")

    def get_header(S, r, name, *a, **k):
        S.event("get_header", name)
        return header

    S.handlers["Req.get_header"] = get_header
    elements = S.list("elements", ELEM)
    S.inputs["n_elements"] = SInt(elements.length)
    del S.inputs["elements"]
    S.handlers["_parse_xfcc"] = lambda S, hv: (S.event("parse", hv), elements)[1]
    S.handlers["_extract_cn"] = lambda S, subj: (S.event("extract_cn", subj), SStr(CN(strterm(subj))))[1]
    S.handlers["DnsTuple.__len__"] = lambda S, x: SInt(DNS_LEN(x.t))
    S.handlers["DnsTuple.__iter__"] = lambda S, x: __import__("pyvc.models", fromlist=["SymIter"]).SymIter(DNS_LEN(x.t), lambda k: SStr(DNS_AT(x.t, k)))
    S.assume(ForAllInt(lambda j: SBool(DNS_LEN(elements.get(j).fields["dns"].t) >= 0)))
    S.inline.add("dataclass:AuthContext")
    out = S.outcome(auth, req)
    hdrs = S.events("get_header")
    S.oblige("O3.reads_the_xfcc_header_once", len(hdrs) == 1 and hdrs[0][1] == "x-forwarded-client-cert", kind="trace")
    parses = S.events("parse")
    n = SInt(elements.length)

    def reason(e):
        return e.attrs.get("reason") if isinstance(e, SExc) else getattr(e, "reason", None)

    if mode == "absent":
        S.oblige("O3.absent_header_is_rejected_as_proxy_required", out.raised and exc_is(out.exc, AuthFailure) and reason(out.exc) is AuthReason.PROXY_REQUIRED, kind="raises")
        S.oblige("O3.absent_header_is_not_parsed", not parses, kind="trace")
        return
    if mode == "zero_length":
        # either classification of a zero-length value is a rejection (see ASSUMPTIONS); the code says proxy_required
        S.oblige("O3.zero_length_header_is_rejected", out.raised and exc_is(out.exc, AuthFailure) and reason(out.exc) in (AuthReason.PROXY_REQUIRED, AuthReason.INVALID_CREDENTIAL), kind="raises")
        if out.raised and reason(out.exc) is AuthReason.PROXY_REQUIRED:
            S.note("O3 note: a zero-length x-forwarded-client-cert value is reported as proxy_required (whitespace-only or ',' values as invalid_credential)")
        return
    S.oblige("O3.header_parsed_once_unmodified", len(parses) == 1 and parses[0][1] is header, kind="trace")
    if out.raised:
        S.oblige("O3.rejected_only_when_no_element", exc_is(out.exc, AuthFailure) and reason(out.exc) is AuthReason.INVALID_CREDENTIAL, kind="raises")
        S.oblige("O3.invalid_credential_iff_no_element", n == 0)
        return
    S.oblige("O3.identity_only_when_some_element", n >= 1)
    want = z3.IntVal(0) if sel == "first" else elements.length - 1
    used = []
    if use_validate:
        vals = S.events("validate")
        S.oblige("O3.validate_called_exactly_once_and_its_result_returned", len(vals) == 1 and out.value is ret, kind="trace")
        for v in vals:
            element_apps(v[1], used)
    else:
        r = out.value
        ok = isinstance(r, SObj) and r.cls is mt.AuthContext
        S.oblige("O3.returns_an_authenticated_context_in_the_given_domain", ok and r.fields["authenticated"] is True and r.fields["domain"] is domain, kind="post")
        if not ok:
            return
        element_apps(r.fields["principal"], used)
        element_apps(r.fields["claims"], used)
        S.oblige("O3.claims_keys_are_the_documented_ones", isinstance(r.fields["claims"], dict) and set(r.fields["claims"]) <= {"hash", "subject", "uri", "dns", "by"}, kind="post")
        for e in S.events("extract_cn"):
            element_apps(e[1], used)
    S.oblige("O3.something_of_the_selected_element_is_used", len(used) >= 1 or not use_validate, kind="post")
    distinct = {}
    for a in used:
        distinct[a.get_id()] = a
    for a in distinct.values():
        S.oblige(f"O3.identity_depends_only_on_the_{sel}_element", SBool(a == want), kind="post", witness=f"select={sel}")
    S.canary(f"O3.canary.{sel}_is_always_the_other_end", SBool((elements.length - 1 if sel == "first" else z3.IntVal(0)) == want))


# ------------------------------------------------------------------------------------------
# bounded stand-ins (labelled bounded; never counted as discharged)
# ------------------------------------------------------------------------------------------


def ref_automaton_split(text, d):
    """plain quote automaton: in-quotes flag, escape pairs consumed together inside quotes"""
    out, cur, q, i = [], "", False, 0
    while i < len(text):
        c = text[i]
        if q and c == "\\" and i + 1 < len(text):
            cur += text[i : i + 2]
            i += 2
            continue
        if c == '"':
            q = not q
        if c == d and not q:
            out.append(cur)
            cur = ""
        else:
            cur += c
        i += 1
    out.append(cur)
    return out


@bounded("B1 split == quote automaton == regular-language spec", bound="all strings of length <= 6 over {a , ; \" \\}, both delimiters (39 062 calls)", tiers=("quick", "thorough"))
def b_split(tier, seed):
    fails, n = [], 0
    for k in range(0, 7):
        for tup in itertools.product('a,;"\\', repeat=k):
            text = "".join(tup)
            for d in ",;":
                n += 1
                got = mt._split_respecting_quotes(text, d)
                if got != ref_automaton_split(text, d) or got != spec_split(text, d) or d.join(got) != text:
                    fails.append(f"_split_respecting_quotes({text!r},{d!r}) = {got!r}; automaton {ref_automaton_split(text, d)!r}; spec {spec_split(text, d)!r}")
    return BoundedResult(n, fails)


@bounded("B2 _parse_xfcc element count == non-blank top-level parts", bound="all strings of length <= 5 over {a = , ; \" \\ space} (19 608 headers)", tiers=("quick", "thorough"))
def b_count(tier, seed):
    fails, n = [], 0
    for k in range(0, 6):
        for tup in itertools.product('a=,;"\\ ', repeat=k):
            h = "".join(tup)
            n += 1
            try:
                got = len(mt._parse_xfcc(h))
            except Exception as e:  # noqa: BLE001
                fails.append(f"_parse_xfcc({h!r}) raised {type(e).__name__}: {e}")
                continue
            want = sum(1 for p in ref_automaton_split(h, ",") if p.strip())
            if got != want:
                fails.append(f"_parse_xfcc({h!r}) has {got} elements, {want} non-blank top-level parts")
    return BoundedResult(n, fails)


def render(value):
    return '"' + value.replace("\\", "\\\\").replace('"', '\\"') + '"'


@bounded("B3 quoted values with , ; \\\" round-trip and never split or merge elements; first/last selection", bound="1-3 elements, Subject/Hash values = all strings of length <= 3 over {a , ; \" \\ =} (259 values), quoted", tiers=("quick", "thorough"))
def b_roundtrip(tier, seed):
    fails, n = [], 0
    values = ["".join(t) for k in range(0, 4) for t in itertools.product('a,;"\\=', repeat=k)]
    step = 1 if tier == "thorough" else 7
    for vi, v in enumerate(values):
        for w in values[(vi % step) :: step]:
            n += 1
            h = f"Hash={render(w)};Subject={render(v)},By=x;Hash={render(v)}"
            els = mt._parse_xfcc(h)
            if len(els) != 2 or els[0].subject != (v or None if False else v) or els[0].hash != w or els[1].hash != v or els[1].by != "x":
                fails.append(f"{h!r} parsed as {els!r}")
                continue
            for sel, want in (("first", els[0]), ("last", els[1])):
                ctx = mt.mtls_authenticate_xfcc(select_element=sel)(FakeReq(h))
                if ctx.claims.get("hash", "") != want.hash or ctx.claims.get("subject", "") != (want.subject or ""):
                    fails.append(f"select={sel} on {h!r}: claims {dict(ctx.claims)!r}")
    return BoundedResult(n, fails)



ELEMENT_POOL = [
    'By=a;Hash=h1;Subject="CN=client";DNS=admin.internal;DNS=c.example',
    "By=b;Hash=h2;URI=spiffe://x/y",
    'Hash=h3;Subject="CN=proxy,O=x";DNS=p.example',
    "Hash=h4",
    'Subject="CN=a\\\\";DNS=z.example',
    "Cert=abc%20def;By=c",
]


@bounded("B4 every element of a multi-element header parses to what it parses to alone (no field leaks between elements); claims come from the selected element only", bound="all sequences of 1-3 elements from a pool of 6 (repeatable DNS, quoted subjects ending in an escaped backslash, URL-encoded fields): 258 headers x {first,last}", tiers=("quick", "thorough"))
def b_isolation(tier, seed):
    fails, n = [], 0
    alone = {e: mt._parse_xfcc(e) for e in ELEMENT_POOL}
    for e, got in alone.items():
        if len(got) != 1:
            fails.append(f"single element {e!r} parsed into {len(got)} elements")
    for k in (1, 2, 3):
        for combo in itertools.product(ELEMENT_POOL, repeat=k):
            n += 1
            h = ",".join(combo)
            els = mt._parse_xfcc(h)
            want = [alone[e][0] for e in combo if len(alone[e]) == 1]
            if els != want:
                fails.append(f"{h!r}: element fields {els!r} differ from the elements parsed alone {want!r}")
                continue
            for sel, w in (("first", want[0]), ("last", want[-1])):
                ctx = mt.mtls_authenticate_xfcc(select_element=sel)(FakeReq(h))
                solo = mt.mtls_authenticate_xfcc(select_element=sel)(FakeReq(combo[0] if sel == "first" else combo[-1]))
                if dict(ctx.claims) != dict(solo.claims) or ctx.principal != solo.principal:
                    fails.append(f"select={sel} on {h!r}: identity {ctx.principal!r} / claims {dict(ctx.claims)!r} differ from the selected element alone ({solo.principal!r} / {dict(solo.claims)!r})")
        if len(fails) > 10:
            break
    return BoundedResult(n, fails[:10])
