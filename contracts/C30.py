"""C30 External-storage offload is transparent and integrity-checked (DESIGN §5 C30).

Reduced: the second sentence of the property - what ``_fetch_and_resolve`` may hand to application code.

Units:
  O1   ``_fetch_and_resolve``: the reader loop is cut at its head with an invariant over the fetched
       stream (an arbitrary sequence of batches, each with arbitrary metadata); it returns a batch only if
       the pointer's SHA-256 (when present) equals the digest of the fetched bytes, no fetched batch
       carries ``vgi_rpc.location``, exactly one fetched batch is not consumed by the log dispatch, that
       batch is the one returned, and its schema equals the pointer's.  Everything else raises.
  O3   ``resolve_external_location``: input returned unchanged when ``config is None`` or the batch is not
       a pointer; for a pointer, ``_fetch_and_resolve`` receives the pointer's schema, the URL and the
       SHA-256 stored in the pointer metadata (None when absent); retryable failures end in RuntimeError.
  O4   ``is_external_location_batch``: pointer iff zero rows, location key present, log-level key absent.
  O5   ``maybe_externalize_batch``: unchanged below threshold / without storage / for zero-row batches;
       otherwise the pointer carries the SHA-256 of the raw (pre-compression) IPC bytes and the batch's schema.
"""

from __future__ import annotations

import hashlib
import io
import sys
import time
import types

import pyarrow as pa
import z3
from pyarrow import ipc

try:  # the retry dependency is optional in the verification environment: a stub keeps the import interpretable
    import tenacity
except ImportError:  # pragma: no cover - environment dependent
    tenacity = types.ModuleType("tenacity")
    for _n in ("Retrying", "retry_if_exception_type", "stop_after_attempt", "wait_fixed"):
        setattr(tenacity, _n, type(_n, (), {"__init__": lambda self, *a, **k: None}))
    tenacity.__stub__ = True
    sys.modules["tenacity"] = tenacity

import vgi_rpc.external as ext
import vgi_rpc.external_fetch as ef
import vgi_rpc.utils as vutils
from pyvc import values as PV
from pyvc.api import *  # noqa: F403
from pyvc.api import PyRaise, ReplayResult, SExc, unit
from vgi_rpc.metadata import LOCATION_KEY, LOCATION_SHA256_KEY, LOG_LEVEL_KEY
from vgi_rpc.rpc import RpcError, _wire

MANIFEST = {
    "level_text": "Deductive proof over the real _fetch_and_resolve / resolve_external_location / is_external_location_batch / maybe_externalize_batch code, for every fetched byte string, every decoded stream (any number of batches, each with any schema, row count and metadata, any of them a log batch, any of them carrying vgi_rpc.location, the reader failing at any point), every pointer (with or without a SHA-256) and every on_log behaviour: a batch is returned to application code only if (a) the pointer carried no SHA-256 or the digest of the fetched bytes equals it, (b) none of the fetched batches carried vgi_rpc.location, (c) exactly one fetched batch was not consumed by the log dispatch and it is the one returned, (d) its schema equals the pointer's, and the whole stream was read; every other case raises. resolve_external_location returns its input objects unchanged when config is None or the batch is not a pointer, and otherwise passes the pointer's schema, URL and stored digest to _fetch_and_resolve. On the producing side the pointer's digest is that of the raw IPC bytes before compression. Tests corrupt a fixed payload in a few ways; the proof covers every stream shape by induction over the reader loop.",
    "level_note": "NOT reduced: the first sentence (resolved batches and logs identical to inline delivery: upload / compress / fetch round trip through storage, pyarrow IPC encode/decode, tenacity retries, aiohttp) and the client-upload path of http/_client.py. Assumes: hashlib.sha256(data).hexdigest() is a function of data (uninterpreted; collision resistance not claimed); ipc.open_stream / ValidatedReader deliver the batches of the decoded stream in order, then StopIteration, or raise; _dispatch_log_or_error (C08) decides from the batch alone whether it consumes it, or raises RpcError / what on_log raised; pa.Schema equality is an equivalence; fetch_url (C31) returns bytes or raises; tenacity's Retrying calls the function with the given arguments and returns its result or re-raises. Termination not verified; engine + z3/cvc5 trusted.",
    "technique": "contract-based deductive verification: loop invariant over an abstract fetched stream (uninterpreted per-index batch attributes, ghost read position), nullable opaque metadata references, uninterpreted digest function, by-contract log dispatch, VCs from the real AST (pyvc), z3/cvc5",
    "design_ref": "DESIGN.md §5 C30",
}
EXPLANATION = MANIFEST["level_text"]
TRUSTED = [
    "pyvc VC generator and its encoding of Python ints/str/bytes/lists/tuples (DESIGN §3.1)",
    "z3 5.1.0 / cvc5 1.4.0",
    "hashlib.sha256(b).hexdigest() is a deterministic function of b (modelled uninterpreted)",
    "pyarrow: ipc.open_stream(BytesIO(data)) + ValidatedReader.read_next_batch_with_custom_metadata() deliver the batches of the stream encoded in data in order and then raise StopIteration, or raise an error; pa.Schema.__eq__/__ne__ are complementary",
    "_dispatch_log_or_error (C08): True = consumed (log delivered or ignored), False = data batch, decided by the batch and its metadata alone; raises only RpcError or what on_log raised",
]
ASSUMPTIONS = [
    "fetch_url is used by contract (C31): returns the fetched (decoded) bytes or raises",
    "tenacity.Retrying(...)(fn, *args) calls fn(*args) (possibly several times) and returns its result or re-raises its last exception; the retry schedule is not reduced (the module is not installed in the verification environment: a stub keeps the import interpretable)",
    "opentelemetry spans are side-effect-only (set_attribute/set_status/end/record_exception return None)",
    "merge_metadata / pa.KeyValueMetadata construction do not fail; the provenance key deliberately carries the original URL (application data, see the code comment)",
    "'identical to inline delivery' (first sentence) is not reduced",
    "loop termination is not verified",
]

STR = z3.StringSort()
INT = z3.IntSort()
SHA_HEX = z3.Function("sha256_hexdigest", STR, STR)  # hashlib (assumed external)
SCHEMA = PV.opaque_sort("Schema")
CMREF = PV.opaque_sort("CM?")
MVAL = PV.opaque_sort("MetaVal?")


_CANARIES: dict[str, int] = {}


def canary(S, name, goal, cap=2):
    """A deliberately wrong claim (must be refuted on >= 1 path).  The same canary is reached on many paths;
    it is stated only where it is not trivially true, and at most ``cap`` times per run (solver load)."""
    if goal is True:
        return
    if _CANARIES.get(name, 0) >= cap:
        return
    _CANARIES[name] = _CANARIES.get(name, 0) + 1
    S.canary(name, goal)


def sb(x):
    return x if isinstance(x, SBool) else SBool(z3.BoolVal(bool(x)))


class FetchedStream:
    """The IPC stream encoded in the fetched bytes: ``n`` batches; batch ``i`` has a schema, a row count, a
    nullable metadata reference, and is (or is not) consumed by the log dispatch - all arbitrary."""

    def __init__(self, S):
        self.S = S
        self.n = S.int("stream_batches")
        S.assume(self.n >= 0)
        f = lambda nm, rng: z3.Function(PV.fresh_name(nm), INT, rng)  # noqa: E731
        self.schema_at, self.rows_at, self.cm_at = f("schema_at", SCHEMA), f("rows_at", INT), f("cm_at", CMREF)
        self.is_log_ref = z3.Function(PV.fresh_name("consumed_by_log_dispatch"), INT, z3.BoolSort())
        self.loc_of = z3.Function(PV.fresh_name("location_value"), CMREF, MVAL)
        self.cm_none = z3.Function("is_none_CM", CMREF, z3.BoolSort())
        self.mv_none = z3.Function("is_none_MetaVal", MVAL, z3.BoolSort())
        self.ELEM = TupleShape(RecShape("Batch", idx=IntShape, schema=OpaqueShape("Schema"), num_rows=IntShape), OpaqueShape("CM?"))

    def batch(self, i):
        i = i.t if isinstance(i, SInt) else i
        return SObj(None, kind="Batch", idx=SInt(i), schema=SOpaque(self.schema_at(i), "Schema"), num_rows=SInt(self.rows_at(i)))

    def cm(self, i):
        i = i.t if isinstance(i, SInt) else i
        return SOpaque(self.cm_at(i), "CM?")

    def is_log(self, i):
        i = i.t if isinstance(i, SInt) else i
        return SBool(self.is_log_ref(i))

    def has_location(self, i):
        i = i.t if isinstance(i, SInt) else i
        c = self.cm_at(i)
        return SBool(z3.And(z3.Not(self.cm_none(c)), z3.Not(self.mv_none(self.loc_of(c)))))

    def is_stream_pair(self, pair):
        """The (batch, metadata) pair is element ``pair[0].idx`` of the stream."""
        b, c = pair
        j = b.fields["idx"]
        return And(eq(b.fields["schema"], SOpaque(self.schema_at(j.t), "Schema")), eq(b.fields["num_rows"], SInt(self.rows_at(j.t))), eq(c, self.cm(j)))


READER_FAILURES = ["ok", "ArrowInvalid", "OSError"]


def install_fetch_world(S, st, cfg, url, data, *, on_log):
    """fetch_url (C31), hashlib, pyarrow reader and the log dispatch (C08) by contract."""
    S.ghost["pos"] = SInt(z3.IntVal(0))
    injected = []

    def inject(cls, *args):
        e = SExc(cls, tuple(args))
        injected.append(e)
        raise PyRaise(e)

    def h_fetch_url(S, u, fetch_config, url_validator=None):
        S.oblige("O1.fetch_url_gets_the_pointer_url_and_the_configured_fetch_config_and_validator", u is url and fetch_config is cfg.fields["fetch_config"] and url_validator is cfg.fields["url_validator"], kind="pre")
        S.event("fetch", u)
        if S.choose(2, "fetch") == 1:
            S.inputs["fetch_fails"] = True
            inject(RuntimeError, "ExternalLocation fetch exceeded max_fetch_bytes")
        return data

    def h_sha256(S, b=b"", **k):
        S.oblige("O1.digest_is_taken_over_the_fetched_bytes", b is data, kind="pre")
        return SObj(None, kind="Hash", of=b)

    S.handlers[ef.fetch_url] = h_fetch_url
    S.handlers["fetch_url"] = h_fetch_url
    S.handlers[hashlib.sha256] = h_sha256
    S.handlers["Hash.hexdigest"] = lambda S, h: SStr(SHA_HEX(PV.bytesterm(h.fields["of"])))
    S.handlers[time.monotonic] = lambda S: 0.0
    S.handlers[io.BytesIO] = lambda S, b=b"": SObj(None, kind="BytesIO", data=b)

    def h_open_stream(S, src, *a, **k):
        S.oblige("O1.stream_is_opened_over_the_fetched_bytes", isinstance(src, SObj) and src.kind == "BytesIO" and src.fields["data"] is data, kind="pre")
        if S.choose(2, "open_stream") == 1:
            S.inputs["open_fails"] = True
            inject(pa.ArrowInvalid, "Invalid IPC stream")
        S.event("opened")
        return SObj(None, kind="IpcReader")

    S.handlers[ipc.open_stream] = h_open_stream
    S.handlers[vutils.ValidatedReader] = lambda S, reader, level: SObj(None, kind="VReader", reader=reader, level=level)

    def h_read(S, r):
        p = S.ghost["pos"]
        S.inputs["read_position"] = p
        k = READER_FAILURES[S.choose(len(READER_FAILURES), "reader")]
        if k != "ok":
            S.inputs["reader_fails"] = k
            inject(pa.ArrowInvalid if k == "ArrowInvalid" else OSError, "corrupt batch")
        if S.fork(p >= st.n):
            raise PyRaise(SExc(StopIteration, ()))
        S.ghost["pos"] = p + 1
        S.inputs["batch_has_location"] = st.has_location(p)
        S.inputs["batch_is_log"] = st.is_log(p)
        return (st.batch(p), st.cm(p))

    S.handlers["VReader.read_next_batch_with_custom_metadata"] = h_read
    S.handlers["CM?.get"] = lambda S, c, key, default=None: SOpaque(st.loc_of(c.t), "MetaVal?") if key == LOCATION_KEY else (_ for _ in ()).throw(Unsupported(f"metadata key {key!r} outside the contract's view"))

    def h_dispatch(S, batch, cm, cb=None):
        # by contract C08: consumed or not is decided by the batch alone; may raise RpcError / what on_log raised
        S.oblige("O1.log_dispatch_gets_the_callers_on_log", cb is on_log, kind="pre")
        # integrity first: log text and EXCEPTION batches of the fetched object reach the application (on_log, a raised
        # RpcError) through this call, so it may only see a payload whose digest has been checked
        if S.ghost.get("digest_ok") is not None:
            S.oblige("O1.payload_is_interpreted_only_after_the_digest_check", S.ghost["digest_ok"], kind="pre", witness="log/exception batch dispatched")
        S.oblige("O1.log_dispatch_gets_a_batch_with_its_own_metadata", st.is_stream_pair((batch, cm)), kind="pre")
        k = S.choose(3, "dispatch")
        if k == 1:
            S.inputs["dispatch_raises"] = "RpcError"
            inject(RpcError, "ServerError", "boom", "")
        if k == 2:
            S.inputs["dispatch_raises"] = "on_log"
            inject(KeyError, "on_log failed")
        S.event("dispatch", batch.fields["idx"])
        return st.is_log(batch.fields["idx"])

    S.handlers[_wire._dispatch_log_or_error] = h_dispatch
    S.handlers["_dispatch_log_or_error"] = h_dispatch
    S.handlers["redact_url"] = lambda S, u: SStr(z3.Function("redact_url", STR, STR)(PV.strterm(u)))
    S.handlers[pa.KeyValueMetadata] = lambda S, d=None: SObj(None, kind="KVDict", d=dict(d or {}))
    S.handlers["merge_metadata"] = lambda S, *mds: SObj(None, kind="Merged", parts=list(mds))
    S.assume_external("pyarrow IPC reader / hashlib / fetch_url / _dispatch_log_or_error", "assumed contracts listed under TRUSTED / ASSUMPTIONS")
    return injected


# ------------------------------------------------------------------------------------------
# native replay: real pyarrow streams with the model's shape
# ------------------------------------------------------------------------------------------

SCHEMA_A = pa.schema([pa.field("x", pa.int64())])
SCHEMA_B = pa.schema([pa.field("y", pa.string())])


def _ipc_bytes(items, schema=SCHEMA_A):
    """items: list of ('data'|'log'|'loc'|'other_schema', ...) -> IPC stream bytes."""
    buf = io.BytesIO()
    w = ipc.new_stream(buf, schema)
    for kind in items:
        if kind == "data":
            w.write_batch(pa.RecordBatch.from_pydict({"x": [1, 2, 3]}, schema=schema))
        elif kind == "log":
            w.write_batch(pa.RecordBatch.from_pydict({"x": []}, schema=schema), custom_metadata=pa.KeyValueMetadata({b"vgi_rpc.log_level": b"INFO", b"vgi_rpc.log_message": b"hello"}))
        elif kind == "loc":
            w.write_batch(pa.RecordBatch.from_pydict({"x": []}, schema=schema), custom_metadata=pa.KeyValueMetadata({LOCATION_KEY: b"https://elsewhere.example/next"}))
        elif kind == "data_with_loc":
            w.write_batch(pa.RecordBatch.from_pydict({"x": [7]}, schema=schema), custom_metadata=pa.KeyValueMetadata({LOCATION_KEY: b"https://elsewhere.example/next"}))
    w.close()
    return buf.getvalue()


def native_fetch_and_resolve(items, *, sha="match", expected_schema=SCHEMA_A, stream_schema=SCHEMA_A):
    data = _ipc_bytes(items, stream_schema)
    digest = hashlib.sha256(data).hexdigest()
    expected = {"match": digest, "none": None, "differs": "0" * 64, "uppercase_of_match": digest.upper()}[sha]
    cfg = ext.ClientExternalConfig() if hasattr(ext, "ClientExternalConfig") else None
    orig = ext.fetch_url
    ext.fetch_url = lambda u, fc, url_validator=None: data
    logs = []
    try:
        try:
            cfgobj = ext.ClientExternalConfig(url_validator=None)
        except Exception:  # noqa: BLE001
            cfgobj = type("Cfg", (), {"fetch_config": None, "url_validator": None})()
        out = ("return", ext._fetch_and_resolve(expected_schema, "https://u:p@h.example/o?sig=1", cfgobj, logs.append, expected_sha256=expected))
    except BaseException as e:  # noqa: BLE001
        out = ("raise", e)
    finally:
        ext.fetch_url = orig
    n_data = sum(1 for k in items if k in ("data", "data_with_loc"))
    has_loc = any(k in ("loc", "data_with_loc") for k in items)
    allowed = n_data == 1 and not has_loc and sha in ("match", "none") and expected_schema == stream_schema
    problems = []
    if out[0] == "return":
        if not allowed:
            problems.append("a payload the property forbids was handed to the caller")
        elif out[1][0].schema != expected_schema or out[1][0].num_rows != 3:
            problems.append("the returned batch is not the stream's data batch")
    if sha in ("differs", "uppercase_of_match") and logs:
        problems.append(f"{len(logs)} log message(s) of an object whose digest does not match reached on_log before the refusal")
    return out, problems, f"stream={items} sha={sha} schema_equal={expected_schema == stream_schema}"


def replay_fetch(inputs, ob):
    """Build a real IPC stream shaped like the model's iteration (prefix of log batches, then the batch the
    model looks at, then the rest) and judge the property on the real function."""
    results, bad = [], False
    is_log = bool(inputs.get("batch_is_log", False))
    has_loc = bool(inputs.get("batch_has_location", False))
    cur = "loc" if has_loc and is_log else ("data_with_loc" if has_loc else ("log" if is_log else "data"))
    shapes = [
        ["log", cur], ["data", cur], [cur], ["log", cur, "data"], [], ["log"], ["data", "data"], ["data", "log", "loc"],
    ]
    sha = "match"
    if inputs.get("has_expected_sha") is False:
        sha = "none"
    elif inputs.get("digest_matches") is False:
        sha = "differs"
    for items in shapes:
        for s in {sha, "uppercase_of_match", "differs"} if sha != "none" else {sha}:
            for sch in ((SCHEMA_A, SCHEMA_A), (SCHEMA_A, SCHEMA_B)) if "data_with_loc" not in items else ((SCHEMA_A, SCHEMA_A),):
                if sch[1] is SCHEMA_B:
                    continue  # _ipc_bytes writes column x; schema mismatch is exercised through expected_schema below
                out, problems, desc = native_fetch_and_resolve(items, sha=s)
                if problems:
                    bad = True
                    results.append(f"{desc}: {out[0]} -> {'; '.join(problems)}")
        out, problems, desc = native_fetch_and_resolve(items, sha=sha, expected_schema=SCHEMA_B)
        if problems:
            bad = True
            results.append(f"{desc}: {out[0]} -> {'; '.join(problems)}")
    return ReplayResult(bad, "native _fetch_and_resolve on real IPC streams: " + ("; ".join(results) if results else "every forbidden payload was refused, the single data batch was returned otherwise"))


# ==========================================================================================
# C30.O1  _fetch_and_resolve
# ==========================================================================================


def mk_config(S):
    return SObj(ext.ClientExternalConfig, fetch_config=SObj(None, kind="FetchConfig"), url_validator=SObj(None, kind="Validator"), max_retries=S.int("max_retries"), retry_delay_seconds=0.5)


@unit(
    "C30.O1 _fetch_and_resolve: a batch is returned only after digest, no-nested-pointer, exactly-one-data-batch and schema checks",
    targets=["vgi_rpc/external.py::_fetch_and_resolve"],
    replay=replay_fetch,
    min_obligations=40,
)
def fetch_and_resolve(S):
    cfg = mk_config(S)
    url = S.str("url")
    data = S.bytes("data")
    has_sha = S.choose(2, "expected_sha") == 0
    S.inputs["has_expected_sha"] = has_sha
    expected_sha = S.str("expected_sha256") if has_sha else None
    expected_schema = S.opaque("expected_schema", "Schema")
    on_log = SObj(None, kind="OnLog")
    st = FetchedStream(S)
    injected = install_fetch_world(S, st, cfg, url, data, on_log=on_log)
    digest_ok = sb(True) if not has_sha else SBool(SHA_HEX(data.t) == expected_sha.t)
    S.inputs["digest_matches"] = digest_ok
    S.ghost["digest_ok"] = digest_ok

    def first_idx(L):
        return as_slist(L.data_batches).get(0)[0].fields["idx"]

    def inv(L):
        p = S.ghost["pos"]
        D = L.data_batches
        if isinstance(D, list) and not D:
            n = SInt(z3.IntVal(0))
            j0 = SInt(z3.IntVal(0))
            first_ok = sb(True)
        else:
            D = as_slist(D).snapshot()
            n = SInt(D.length)
            j0 = D.get(0)[0].fields["idx"]
            first_ok = st.is_stream_pair(D.get(0))
        return [
            ("read_position_within_the_stream", And(p >= 0, p <= st.n)),
            ("no_batch_read_so_far_carried_a_location", ForAllInt(lambda i: Implies(And(i >= 0, i < p), Not(st.has_location(i))))),
            ("no_data_batch_collected_means_only_log_batches_so_far", Implies(n == 0, ForAllInt(lambda i: Implies(And(i >= 0, i < p), st.is_log(i))))),
            ("first_collected_batch_is_the_first_non_log_batch_of_the_stream", Implies(n >= 1, And(j0 >= 0, j0 < p, Not(st.is_log(j0)), first_ok, ForAllInt(lambda i: Implies(And(i >= 0, i < j0), st.is_log(i)))))),
            ("one_collected_batch_means_all_others_so_far_were_log_batches", Implies(n == 1, ForAllInt(lambda i: Implies(And(i > j0, i < p), st.is_log(i))))),
            ("several_collected_batches_mean_a_second_non_log_batch", Implies(n >= 2, ExistsInt(lambda i: And(i > j0, i < p, Not(st.is_log(i)))))),
            ("collected_count_not_negative", n >= 0),
        ]

    key = ("_fetch_and_resolve", 0)
    S.invariants[key] = inv
    S.loop_ghost[key] = ["pos"]
    S.loop_havoc[key] = {"data_batches": ListShape(st.ELEM)}
    out = S.outcome(ext._fetch_and_resolve, expected_schema, url, cfg, on_log, vutils.IpcValidation.FULL, expected_sha)
    p = S.ghost["pos"]
    S.oblige("O1.exactly_one_fetch", len(S.events("fetch")) == 1, kind="trace")
    if out.raised:
        if not any(out.exc is e for e in injected):
            S.oblige("O1.refusals_are_RuntimeError_or_ValueError", exc_is(out.exc, RuntimeError, ValueError), kind="raises", witness=exc_class(out.exc).__name__)
            if not S.events("opened"):  # the digest refusal (before the reader loop: a quantifier-free path condition)
                canary(S, "O1.canary.digest_mismatch_is_never_refused", False)
        return
    r = out.value
    ok = isinstance(r, tuple) and len(r) == 2 and isinstance(r[0], SObj) and r[0].kind == "Batch"
    S.oblige("O1.returns_a_batch_and_its_metadata", ok, kind="post")
    if not ok:
        return
    j = r[0].fields["idx"]
    S.oblige("O1.returned_only_if_the_pointer_digest_matches_the_fetched_bytes", digest_ok)
    S.oblige("O1.returned_only_after_the_whole_stream_was_read", p == st.n)
    S.oblige("O1.returned_only_if_no_fetched_batch_carried_a_location", ForAllInt(lambda i: Implies(And(i >= 0, i < st.n), Not(st.has_location(i)))))
    S.oblige("O1.returned_batch_is_a_non_log_batch_of_the_fetched_stream", And(j >= 0, j < st.n, Not(st.is_log(j)), eq(r[0].fields["schema"], SOpaque(st.schema_at(j.t), "Schema"))))
    S.oblige("O1.returned_only_if_every_other_fetched_batch_was_a_log_batch", ForAllInt(lambda i: Implies(And(i >= 0, i < st.n, i != j), st.is_log(i))))
    S.oblige("O1.returned_batch_schema_equals_the_pointer_schema", eq(r[0].fields["schema"], expected_schema))
    if has_sha:
        canary(S, "O1.canary.digest_never_checked", Not(digest_ok))


# ==========================================================================================
# C30.O4  is_external_location_batch        C30.O3  resolve_external_location
# ==========================================================================================


def mk_pointer_candidate(S):
    """Any batch with any metadata: row count, and presence of the three framework keys, are arbitrary."""
    rows = S.int("num_rows")
    S.assume(rows >= 0)
    schema = S.opaque("pointer_schema", "Schema")
    batch = SObj(None, kind="Batch", num_rows=rows, schema=schema)
    has_cm = S.choose(2, "metadata") == 1
    S.inputs["has_metadata"] = has_cm
    vals = {}
    cm = SObj(None, kind="KVMeta") if has_cm else None

    def get(S, m, key, default=None):
        if key not in (LOCATION_KEY, LOCATION_SHA256_KEY, LOG_LEVEL_KEY):
            raise Unsupported(f"metadata key {key!r} outside the contract's view")
        if key not in vals:
            present = S.choose(2, "key") == 1
            tag = {LOCATION_KEY: "location", LOCATION_SHA256_KEY: "sha256", LOG_LEVEL_KEY: "log_level"}[key]
            S.inputs["has_" + tag] = present
            vals[key] = S.bytes("md_" + tag) if present else None
        return vals[key] if vals[key] is not None else default

    S.handlers["KVMeta.get"] = get
    return batch, cm, vals, rows


def _native_pointer_case(inputs):
    rows = inputs.get("num_rows", 0)
    rows = rows if isinstance(rows, int) and 0 <= rows <= 5 else (0 if rows == 0 else 1)
    batch = pa.RecordBatch.from_pydict({"x": list(range(rows))}, schema=SCHEMA_A)
    md = {}
    if inputs.get("has_location"):
        md[LOCATION_KEY] = b"https://h.example/o?sig=1"
    if inputs.get("has_sha256"):
        md[LOCATION_SHA256_KEY] = b"ab" * 32
    if inputs.get("has_log_level"):
        md[LOG_LEVEL_KEY] = b"INFO"
    cm = pa.KeyValueMetadata(md) if inputs.get("has_metadata") else None
    spec = rows == 0 and cm is not None and LOCATION_KEY in md and LOG_LEVEL_KEY not in md
    return batch, cm, spec


def replay_is_pointer(inputs, ob):
    batch, cm, spec = _native_pointer_case(inputs)
    got = ext.is_external_location_batch(batch, cm)
    return ReplayResult(got != spec, f"is_external_location_batch(rows={batch.num_rows}, metadata={None if cm is None else dict(cm)}) = {got}, specification says {spec}")


@unit(
    "C30.O4 is_external_location_batch: pointer iff zero rows, location present, no log level",
    targets=["vgi_rpc/external.py::is_external_location_batch"],
    replay=replay_is_pointer,
    min_obligations=6,
)
def is_pointer(S):
    batch, cm, vals, rows = mk_pointer_candidate(S)
    out = S.outcome(ext.is_external_location_batch, batch, cm)
    S.oblige("O4.raises_nothing", out.returned, kind="raises")
    if not out.returned:
        return
    # specification from the property text: a pointer is a zero-row batch carrying vgi_rpc.location that is not a log batch
    loc = cm is not None and S.handlers["KVMeta.get"](S, cm, LOCATION_KEY) is not None
    lvl = cm is not None and S.handlers["KVMeta.get"](S, cm, LOG_LEVEL_KEY) is not None
    spec = And(rows == 0, sb(loc), sb(not lvl))
    got = out.value
    S.oblige("O4.pointer_iff_zero_rows_with_location_and_without_log_level", Iff(sb(got) if isinstance(got, bool) else got, spec))
    if got is not False:
        canary(S, "O4.canary.nothing_is_a_pointer", Not(sb(got) if isinstance(got, bool) else got))


def replay_resolve(inputs, ob):
    """Native: config None / non-pointer -> identity; pointer -> _fetch_and_resolve gets schema, url, sha."""
    batch, cm, spec = _native_pointer_case(inputs)
    seen = []
    orig = ext._fetch_and_resolve

    def fake(expected_schema, url, config, on_log, ipc_validation=None, expected_sha256=None):
        seen.append((expected_schema, url, config, expected_sha256))
        return ("resolved", None)

    ext._fetch_and_resolve = fake
    cfg = None if inputs.get("config_is_none") else ext.ClientExternalConfig()
    stubbed = getattr(tenacity, "__stub__", False)
    if stubbed:
        tenacity.Retrying.__call__ = lambda self, fn, *a, **k: fn(*a, **k)
    try:
        out = ("return", ext.resolve_external_location(batch, cm, cfg))
    except BaseException as e:  # noqa: BLE001
        out = ("raise", e)
    finally:
        ext._fetch_and_resolve = orig
    problems = []
    if cfg is None or not spec:
        if not (out[0] == "return" and out[1][0] is batch and out[1][1] is cm and not seen):
            problems.append("input was not returned unchanged")
    else:
        want_sha = ("ab" * 32) if inputs.get("has_sha256") else None
        if not seen or seen[0][0] != batch.schema or seen[0][1] != "https://h.example/o?sig=1" or seen[0][3] != want_sha or seen[0][2] is not cfg:
            problems.append(f"_fetch_and_resolve got {seen}")
    return ReplayResult(bool(problems), f"resolve_external_location(config={'None' if cfg is None else 'set'}, pointer={spec}) -> {out[0]}; " + "; ".join(problems))


@unit(
    "C30.O3 resolve_external_location: unchanged without config / for non-pointers; pointers resolved with their schema, URL and stored digest",
    targets=["vgi_rpc/external.py::resolve_external_location", "vgi_rpc/external.py::is_external_location_batch"],
    replay=replay_resolve,
    min_obligations=20,
)
def resolve(S):
    batch, cm, vals, rows = mk_pointer_candidate(S)
    config_none = S.choose(2, "config") == 1
    S.inputs["config_is_none"] = config_none
    cfg = None if config_none else mk_config(S)
    on_log = SObj(None, kind="OnLog")
    S.inline.add("is_external_location_batch")
    S.handlers[time.monotonic] = lambda S: 0.0
    S.handlers["redact_url"] = lambda S, u: SStr(z3.Function("redact_url", STR, STR)(PV.strterm(u)))
    # opentelemetry (if installed): spans are side-effect-only
    otel = ext._otel_trace
    if otel is not None:
        S.handlers[otel.get_tracer] = lambda S, *a, **k: SObj(None, kind="Tracer")
        S.handlers["Tracer.start_span"] = lambda S, t, *a, **k: SObj(None, kind="Span")
        for m in ("set_attribute", "set_status", "end", "record_exception"):
            S.handlers["Span." + m] = lambda S, sp, *a, **k: None
    for nm in ("retry_if_exception_type", "stop_after_attempt", "wait_fixed"):
        S.handlers[getattr(tenacity, nm)] = lambda S, *a, **k: SObj(None, kind="RetryPart", args=a)
    S.handlers[tenacity.Retrying] = lambda S, **k: SObj(None, kind="Retrying", **k)
    calls = []
    resolved = (SObj(None, kind="Batch", num_rows=S.int("resolved_rows"), schema=S.opaque("resolved_schema", "Schema")), SObj(None, kind="Merged"))
    failure = {}

    def retrying_call(S, r, fn, *args, **kw):
        # tenacity by contract: calls fn(*args) and returns its result or re-raises its exception
        S.oblige("O3.the_retried_function_is_fetch_and_resolve", fn is ext._fetch_and_resolve, kind="pre")
        calls.append(args)
        k = S.choose(4, "fetch_and_resolve")
        S.inputs["resolution"] = ["resolved", "OSError", "ArrowInvalid", "RuntimeError"][k]
        if k == 0:
            return resolved
        failure["exc"] = SExc([None, OSError, pa.ArrowInvalid, RuntimeError][k], ("SHA-256 checksum mismatch" if k == 3 else "connection failed https://u:p@h/o?sig=1",))
        raise PyRaise(failure["exc"])

    S.handlers["Retrying.__call__"] = retrying_call
    logged = []
    for level in ("error", "warning", "debug"):
        S.handlers[f"_logger.{level}"] = S.handlers[f"Logger.{level}"] = lambda S, *a, **kw: logged.append((a, kw))
    out = S.outcome(ext.resolve_external_location, batch, cm, cfg, on_log, vutils.IpcValidation.FULL)
    loc, sha, lvl = vals.get(LOCATION_KEY), vals.get(LOCATION_SHA256_KEY), vals.get(LOG_LEVEL_KEY)
    if config_none:
        S.oblige("O3.without_config_the_input_is_returned_unchanged", out.returned and isinstance(out.value, tuple) and out.value[0] is batch and out.value[1] is cm and not calls, kind="post")
        return
    if not calls and out.returned:
        # not treated as a pointer
        S.oblige("O3.a_non_pointer_is_returned_unchanged", isinstance(out.value, tuple) and out.value[0] is batch and out.value[1] is cm, kind="post")
        S.oblige("O3.only_non_pointers_skip_resolution", Or(rows != 0, sb(cm is None), sb(loc is None), sb(lvl is not None)), kind="post")
        return
    if not calls:
        S.oblige("O3.a_pointer_whose_url_does_not_decode_raises_UnicodeDecodeError", exc_is(out.exc, UnicodeDecodeError), kind="raises", witness=exc_class(out.exc).__name__)
        return
    S.oblige("O3.only_pointers_are_resolved", And(rows == 0, sb(cm is not None), sb(loc is not None), sb(lvl is None)), kind="post")
    S.oblige("O3.exactly_one_retried_resolution", len(calls) == 1, kind="trace")
    a = calls[0]
    okn = len(a) == 6
    S.oblige("O3.fetch_and_resolve_gets_six_arguments", okn, kind="pre")
    if okn:
        from pyvc import models

        S.oblige("O3.expected_schema_is_the_pointers_schema", a[0] is batch.fields["schema"], kind="pre")
        S.oblige("O3.url_is_the_decoded_location_value", isinstance(a[1], SStr) and loc is not None and a[1].t.eq(models.decode_utf8(S.interp, loc).t) if loc is not None else False, kind="pre")
        S.oblige("O3.config_on_log_and_validation_level_are_handed_on", a[2] is cfg and a[3] is on_log and a[4] is vutils.IpcValidation.FULL, kind="pre")
        if sha is None:
            S.oblige("O3.no_stored_digest_means_None", a[5] is None, kind="pre")
        else:
            S.oblige("O3.expected_digest_is_the_decoded_stored_value", isinstance(a[5], SStr) and a[5].t.eq(models.decode_utf8(S.interp, sha).t), kind="pre")
    if out.returned:
        S.oblige("O3.resolution_result_is_returned_as_is", out.value is resolved, kind="post")
        canary(S, "O3.canary.pointers_never_resolve", False)
    else:
        e = failure.get("exc")
        if e is not None and exc_is(e, RuntimeError):
            S.oblige("O3.integrity_refusals_propagate_unchanged", out.exc is e, kind="raises")
        else:
            S.oblige("O3.transport_failures_become_RuntimeError", exc_is(out.exc, RuntimeError, UnicodeDecodeError), kind="raises", witness=exc_class(out.exc).__name__)


# ==========================================================================================
# C30.O5  maybe_externalize_batch (producing side): unchanged below threshold; pointer digest = raw IPC bytes
# ==========================================================================================


class _MemStorage:
    def __init__(self):
        self.objects = []

    def upload(self, data, schema, *, content_encoding=None):
        self.objects.append((data, content_encoding))
        return f"https://storage.example/obj{len(self.objects)}?sig=1"


def replay_externalize(inputs, ob):
    """Native: real pyarrow + real codecs; the pointer's digest must be the SHA-256 of the decoded upload."""
    from vgi_rpc import _codec

    out, bad = [], False
    for rows, thr, comp in ((0, 0, None), (3, 10**9, None), (3, 0, None), (3, 0, "gzip"), (3, 0, "zstd")):
        st = _MemStorage()
        cfg = ext.ServerExternalConfig(storage=st, externalize_threshold_bytes=thr, compression=None if comp is None else ext.Compression(algorithm=comp))
        batch = pa.RecordBatch.from_pydict({"x": list(range(rows))}, schema=SCHEMA_A)
        cm = pa.KeyValueMetadata({b"k": b"v"})
        try:
            b2, cm2, n = ext.maybe_externalize_batch(batch, cm, cfg)
        except ImportError as e:
            out.append(f"{comp}: codec unavailable ({e})")
            continue
        if rows == 0 or thr > 0:
            ok = b2 is batch and cm2 is cm and n == 0 and not st.objects
        else:
            raw, enc = st.objects[0]
            plain = raw if enc is None else _codec.decompress(_codec.Encoding(enc), raw, max_output_size=10**7)
            ok = b2.num_rows == 0 and b2.schema == batch.schema and cm2.get(LOCATION_SHA256_KEY) == hashlib.sha256(plain).hexdigest().encode() and n == len(plain)
        bad = bad or not ok
        out.append(f"rows={rows} threshold={thr} compression={comp}: {'ok' if ok else 'WRONG'}")
    return ReplayResult(bad, "maybe_externalize_batch natively: " + "; ".join(out))


@unit(
    "C30.O5 maybe_externalize_batch: unchanged unless storage, rows and threshold say so; pointer digest is that of the raw IPC bytes",
    targets=["vgi_rpc/external.py::maybe_externalize_batch"],
    replay=replay_externalize,
    min_obligations=12,
)
def externalize_batch(S):
    from vgi_rpc._codec import compress

    rows, size, thr = S.int("num_rows"), S.int("buffer_size"), S.int("threshold")
    S.assume(rows >= 0)
    schema = S.opaque("schema", "Schema")
    batch = SObj(None, kind="Batch", num_rows=rows, schema=schema)
    S.handlers["Batch.get_total_buffer_size"] = lambda S, b: size
    cm = None if S.choose(2, "metadata") == 0 else SObj(None, kind="KVMeta")
    storage = None if S.choose(2, "storage") == 0 else SObj(None, kind="Storage")
    algo = [None, "zstd", "gzip"][S.choose(3, "compression")]
    S.inputs.update({"has_storage": storage is not None, "compression": algo})
    comp = None if algo is None else SObj(ext.Compression, algorithm=algo, level=3)
    cfg = SObj(ext.ServerExternalConfig, storage=storage, externalize_threshold_bytes=thr, compression=comp)
    raw = S.bytes("ipc_bytes")
    written = []
    S.handlers[io.BytesIO] = lambda S, *a: SObj(None, kind="BytesIO")
    S.handlers["BytesIO.getvalue"] = lambda S, b: raw
    S.handlers["new_ipc_stream"] = lambda S, sink, sch: (S.oblige("O5.stream_written_with_the_batch_schema", sch is schema, kind="pre"), SObj(None, kind="Writer"))[1]
    S.handlers["Writer.__enter__"] = lambda S, w: w
    S.handlers["Writer.__exit__"] = lambda S, w, *a: False
    S.handlers["Writer.write_batch"] = lambda S, w, b, custom_metadata=None: written.append((b, custom_metadata))
    S.handlers[hashlib.sha256] = lambda S, b=b"": SObj(None, kind="Hash", of=b)
    S.handlers["Hash.hexdigest"] = lambda S, h: SStr(SHA_HEX(PV.bytesterm(h.fields["of"])))
    packed = S.bytes("compressed")
    S.handlers[compress] = lambda S, codec, data, level=None: (S.oblige("O5.compression_is_applied_to_the_raw_ipc_bytes", data is raw, kind="pre"), packed)[1]
    uploads, pointers = [], []

    def upload(S, data, sch, st, content_encoding=None, original_bytes=None):
        uploads.append((data, sch, st, content_encoding))
        return S.str("upload_url")

    S.handlers["_traced_upload"] = upload

    def make_pointer(S, sch, url, sha256=None):
        pointers.append((sch, url, sha256))
        return (SObj(None, kind="Batch", num_rows=0, schema=sch), SObj(None, kind="KVMeta"))

    S.handlers["make_external_location_batch"] = make_pointer
    S.handlers["redact_url"] = lambda S, u: "<redacted>"
    out = S.outcome(ext.maybe_externalize_batch, batch, cm, cfg)
    S.oblige("O5.raises_nothing", out.returned, kind="raises")
    if not out.returned:
        return
    r = out.value
    if not uploads:
        S.oblige("O5.without_upload_the_input_is_returned_unchanged", isinstance(r, tuple) and len(r) == 3 and r[0] is batch and r[1] is cm and isinstance(r[2], int) and r[2] == 0, kind="post")
        S.oblige("O5.inline_only_without_storage_or_rows_or_below_threshold", Or(sb(storage is None), rows == 0, size < thr), kind="post")
        return
    S.oblige("O5.upload_only_with_storage_rows_and_threshold_reached", And(sb(storage is not None), rows != 0, size >= thr), kind="post")
    S.oblige("O5.exactly_the_batch_with_its_metadata_was_serialised", len(written) == 1 and written[0][0] is batch and written[0][1] is cm, kind="trace")
    S.oblige("O5.one_upload_of_the_possibly_compressed_bytes", len(uploads) == 1 and uploads[0][0] is (raw if algo is None else packed) and uploads[0][1] is schema and uploads[0][3] == algo, kind="trace")
    okp = len(pointers) == 1 and pointers[0][0] is schema and isinstance(pointers[0][2], SStr)
    S.oblige("O5.pointer_built_for_the_batch_schema_with_a_digest", okp, kind="post")
    if okp:
        S.oblige("O5.pointer_digest_is_the_sha256_of_the_raw_ipc_bytes", SBool(pointers[0][2].t == SHA_HEX(raw.t)), kind="post")
        S.oblige("O5.pointer_is_returned_with_the_raw_size", isinstance(r, tuple) and len(r) == 3 and r[0].fields.get("schema") is schema and eq(r[2], SInt(z3.Length(raw.t))), kind="post")
    canary(S, "O5.canary.nothing_is_ever_uploaded", False)
