"""C26 Sticky sessions are never used concurrently with or after close (DESIGN §5 C26, §2.5 lock invariants).

The argument (no schedule enumeration): ownership of a session's state is represented by its entry lock.
  O1  coverage          - `_entries` is touched only under `registry._lock` (all methods, syntactic scan);
  O2  unique remover    - every close hook is preceded, on its path, by the removal of that entry from
                          `_entries` (under the registry lock by O1) => removal happens once, so at most one close;
  O3  exclusive dispatch- a request dispatches against a session only while it holds that entry's lock
                          (acquired in process_request / _open_session, released in process_response /
                          _close_session) => with RLock mutual exclusion at most one dispatch at a time;
  O4  close excludes dispatch - every close hook runs with that entry's lock held by the closing thread;
                          a thread that cannot get the lock blocks, so no hook runs during another thread's dispatch;
  O5  no dispatch after close - after the (blocking) acquire the dispatching path re-establishes "entry
                          still registered" (closed => unregistered by O2, and unregistering is permanent).
O2-O5 are path-wise obligations on the real code, executed with *interference*: at the blocking acquire and
between the steps of the method, another thread (second request, DELETE, reaper tick after the TTL, shutdown)
runs real registry code under its own lock set; a thread that needs a lock owned by another one blocks there.
"""

from __future__ import annotations

import secrets
import threading
import time as _time
import warnings
from http import HTTPStatus
from typing import Any, Protocol

import vgi_rpc.http.server._sticky as sk
import vgi_rpc.rpc._common as rc
from pyvc import locks
from pyvc.api import *  # noqa: F403
from pyvc.api import PyRaise, ReplayResult, unit
from vgi_rpc.http._common import SESSION_ACCEPT_HEADER, SESSION_HEADER
from vgi_rpc.rpc import AuthContext, CallContext, SessionLostError

MANIFEST = {
    "level_text": "Lock-invariant proof on the real sticky-session code (no schedule enumeration): (O1) every access to _SessionRegistry._entries in every method is inside `with self._lock`; (O2) on every path of get / close / drain_expired / shutdown / _close_session / on_delete a close hook runs only for an entry already removed from _entries, at most once per session and exactly once when the session ends; (O3) process_request returns for dispatch only while holding the bound session's entry lock, a session opened by the request is locked for the rest of the request, and every lock is released by process_response; (O4) every close hook runs with that entry's lock held by the closing thread and no entry lock is requested while the registry lock is held (lock order); (O5) after the blocking acquire the dispatching path does not dispatch against a session that was closed or evicted while it waited. The obligations are checked path-wise with interference: at the blocking acquire and between method steps another thread (a request closing the session, the reaper after the TTL, shutdown, DELETE, a second request evicting in-line) executes the real registry code under its own lock set and blocks on locks it does not own. With RLock mutual exclusion these give: at most one dispatch per session at a time, the close hook at most once (exactly once if the session ends), never during a dispatch, and no dispatch after it started.",
    "level_note": "Only the lock discipline is decided, not interleavings: the property's 'all interleavings up to a preemption bound' is replaced by the monitor / lock-invariant argument (assumes threading.Lock/RLock mutual exclusion, atomic attribute access, falcon calling process_response after every request that passed process_request). Interference is a finite menu of real registry operations run at the blocking acquire and between method steps, not an arbitrary adversary; registries hold the tracked session plus one other; clock values are integers; the user's close hook is an event (its own blocking is out of scope). In-method close_session is the dispatching request closing its own session (it owns the lock), which the property's 'never while a request is dispatching' is read to allow. Token opening is the idealised contract of C25.",
    "technique": "contract-based deductive verification: lock-coverage scan of every method + path-wise lock-invariant / ghost-trace obligations on the real code with modelled interference at blocking points; VCs by pyvc, z3",
    "design_ref": "DESIGN.md §5 C26, §2.5",
}
EXPLANATION = MANIFEST["level_text"]
TRUSTED = [
    "pyvc VC generator / interpreter and lock-coverage scanner; z3 5.1.0",
    "threading.Lock / RLock give mutual exclusion (RLock re-entrant for its owner); CPython attribute loads/stores are atomic",
    "falcon calls process_response for every request whose process_request ran",
    "idealised token contract of C25 (a presented token names the worker and session id it was minted for)",
]
ASSUMPTIONS = [
    "schedules are not enumerated: interleavings are covered by the lock-invariant argument O1-O5",
    "interference menu: close by another request, reaper tick after the TTL (drain_expired), shutdown, DELETE, in-line eviction by a second request - each executed from the real source at the blocking acquire and between method steps",
    "the registry holds the tracked session and one unrelated session; clock values are integers",
    "state.close() is arbitrary user code, modelled as an event",
]

WORKER = "worker-a"
A, B_ID = b"\xaa" * 12, b"\xbb" * 12


class Blocked(Exception):
    """The current (interfering) thread needs a lock owned by another thread: it stays suspended here."""


# ------------------------------------------------------------------------------------------
# O1 coverage
# ------------------------------------------------------------------------------------------


@unit("C26.O1 lock coverage of _entries", targets=["vgi_rpc/http/server/_sticky.py::_SessionRegistry (all methods)"], min_obligations=10)
def coverage(S: Any) -> None:
    acc = locks.coverage(sk._SessionRegistry, "_lock", {"_entries"}, exempt_methods={"__init__"})
    for a in acc:
        S.cur_site = f"_SessionRegistry.{a.method}:{a.line}: {a.text}"
        S.oblige(f"O1.coverage.{a.method}._entries", a.covered, kind="lock", why=a.why, witness=f"{a.method}:{a.text}")
    S.oblige("O1.some_accesses_found", len(acc) >= 10, kind="lock")
    methods = {a.method for a in acc}
    S.oblige("O1.every_mutator_is_scanned", {"open", "get", "close", "drain_expired", "shutdown"} <= methods, kind="lock")
    S.canary("O1.canary.no_access_is_covered", not any(a.covered for a in acc))


# ------------------------------------------------------------------------------------------
# the world: threads with their own lock sets, owner-aware entry locks, ghost events
# ------------------------------------------------------------------------------------------


class World:
    def __init__(self, S: Any, tracked_expires: Any = 10_000, now: Any = 1000) -> None:
        self.S = S
        self.held: dict[str, list[str]] = {"req": [], "other": []}
        self.cur = "req"
        S.ghost["__held__"] = self.held["req"]
        self.now = now
        self.lock_of: dict[int, Any] = {}
        self.stA = SObj(None, kind="State", tag="A")
        self.stB = SObj(None, kind="State", tag="B")
        self.eA = self.mk_entry(self.stA, tracked_expires, "A")
        self.eB = self.mk_entry(self.stB, 20_000, "B")
        self.entries: dict[bytes, Any] = {A: self.eA, B_ID: self.eB}
        self.entry_of_state = {id(self.stA): self.eA, id(self.stB): self.eB}
        self.reg = SObj(sk._SessionRegistry, _entries=self.entries, _lock=SObj(None, kind="Lock", name="registry._lock"), _default_ttl=300, _draining=False)
        self.mw = SObj(sk._StickyMiddleware, _registry=self.reg, _token_key=b"K" * 32, _exempt_prefixes=(), _echo_headers=(), _reaper=None)
        self.res = SObj(sk._SessionResource, _registry=self.reg, _token_key=b"K" * 32)
        self.auth = SObj(AuthContext, domain="d", authenticated=True, principal="alice")
        self.pk = "d\x00alice"
        self.tokens = {"TA": (WORKER, A, 10_000)}
        self.n_new = 0
        self.dispatching: dict[int, str] = {}  # id(state) -> thread currently dispatching against it
        self.at_acquire: Any = None  # interference to run when the request thread blocks on the tracked lock
        self.origin = "?"  # which operation is running (witness class of a close hook)
        self.install()

    def mk_entry(self, state: Any, expires: Any, tag: str) -> Any:
        lk = SObj(None, kind="EntryLock", name=f"entry.lock:{tag}")
        return SObj(sk._SessionEntry, state=state, expires_at=expires, principal_key="d\x00alice", lock=lk)

    # ---- locks -----------------------------------------------------------------------------------
    def owner(self, lid: str) -> str | None:
        for t, h in self.held.items():
            if lid in h:
                return t
        return None

    def acquire(self, S: Any, lk: Any, *a: Any, **k: Any) -> Any:
        lid = lk.fields["name"]
        if self.cur == "req" and self.at_acquire is not None and lid == "entry.lock:A" and self.owner(lid) is None:
            # the request thread blocks here for as long as another thread owns the lock: whatever that thread
            # (and others) did meanwhile has happened when acquire returns
            op, self.at_acquire = self.at_acquire, None
            self.interfere(op)
        o = self.owner(lid)
        if o is not None and o != self.cur:
            if self.cur == "req":
                raise Unsupported(f"request thread would block forever on {lid}")
            S.event("blocked", self.cur, lid)
            raise Blocked(lid)
        S.oblige("O4.lock_order.no_entry_lock_is_requested_while_holding_the_registry_lock", "registry._lock" not in self.held[self.cur], kind="lock", witness=S.cur_site.split(":")[0])
        self.held[self.cur].append(lid)
        S.event("acquire", lid, self.cur)
        return True

    def release(self, S: Any, lk: Any, *a: Any) -> Any:
        lid = lk.fields["name"]
        h = self.held[self.cur]
        if lid not in h:
            raise PyRaise(SExc(RuntimeError, ("cannot release un-acquired lock",)))
        h.reverse()
        h.remove(lid)
        h.reverse()
        S.event("release", lid, self.cur)
        return None

    def as_thread(self, name: str) -> "World._Switch":
        return World._Switch(self, name)

    class _Switch:
        def __init__(self, w: "World", name: str) -> None:
            self.w, self.name = w, name

        def __enter__(self) -> None:
            self.prev = self.w.cur
            self.w.cur = self.name
            self.w.S.ghost["__held__"] = self.w.held[self.name]

        def __exit__(self, *a: Any) -> None:
            self.w.cur = self.prev
            self.w.S.ghost["__held__"] = self.w.held[self.prev]

    # ---- handlers -----------------------------------------------------------------------------------
    def install(self) -> None:
        S, H = self.S, self.S.handlers
        S.inline.update({"*", "dataclasses"})
        H["EntryLock.acquire"] = self.acquire
        H["EntryLock.release"] = self.release
        H["EntryLock.__enter__"] = self.acquire
        H["EntryLock.__exit__"] = lambda S, lk, *a: (self.release(S, lk), False)[1]

        def new_lock(S: Any) -> Any:
            return SObj(None, kind="EntryLock", name=f"entry.lock:new{self.n_new + 1}")

        def token_bytes(S: Any, n: Any) -> Any:
            self.n_new += 1
            return bytes([self.n_new]) * n

        def seal(S: Any, server_id: Any, session_id: Any, expires_at: Any, token_key: Any, aad: Any, **kw: Any) -> Any:
            tok = f"T{self.n_new}"
            self.tokens[tok] = (server_id, session_id, expires_at)
            return tok

        def open_token(S: Any, token: Any, token_key: Any, aad: Any) -> Any:
            if token not in self.tokens:
                raise PyRaise(SExc(SessionLostError, ("session token verification failed",)))
            return self.tokens[token]

        def close_hook(S: Any, st: Any) -> None:
            e = self.entry_of_state.get(id(st))
            if e is None:  # a session opened during this history
                e = next((x for x in self.all_new_entries if x.fields["state"] is st), None)
            lid = e.fields["lock"].fields["name"] if e is not None else "?"
            S.event(
                "close_hook",
                st,
                self.cur,
                lid in self.held[self.cur],  # the closing thread holds the entry's lock
                any(x is e for x in self.entries.values()),  # still registered?
                self.dispatching.get(id(st)),  # who is dispatching against it right now
                SITE_CLASS.get(self.origin, self.origin),
            )

        self.all_new_entries: list[Any] = []
        H[threading.RLock] = new_lock
        H[secrets.token_bytes] = token_bytes
        H[_time.time] = lambda S: self.now
        H["_seal_session_token"] = seal
        H["_open_session_token"] = open_token
        H["_get_auth_and_metadata"] = lambda S: (self.auth, {})
        H["_compute_aad"] = lambda S, a: b"aad"
        H["_StickyMiddleware._ensure_reaper"] = lambda S, m: None
        H["_set_error_response"] = lambda S, r, exc, status_code=HTTPStatus.BAD_REQUEST, **kw: S.event("error_response", exc)
        H["State.close"] = close_hook
        H["Resp.set_header"] = lambda S, r, name, value: None

    def note_new_entries(self) -> None:
        for e in self.entries.values():
            if e is not self.eA and e is not self.eB and not any(x is e for x in self.all_new_entries):
                self.all_new_entries.append(e)

    # ---- interference: real registry code run by another thread ------------------------------------------
    def interfere(self, op: str) -> None:
        S = self.S
        if op == "none":
            return
        S.event("interference", op)
        saved_origin, self.origin = self.origin, op
        with self.as_thread("other"):
            try:
                if op == "closed_by_another_request":
                    # another request on the same session finished ctx.close_session() while we waited: it owned the
                    # entry lock when it started; run the real close path of that request
                    ctx2 = SObj(None, kind="ReqContext", sticky_entry=self.eA, sticky_entry_lock_acquired=True, sticky_session_token=None)
                    ctx2.closed = True
                    req2 = SObj(None, kind="Req", path="/vgi/m", env={"vgi_rpc.server_id": WORKER}, context=ctx2)
                    self.held["other"].append("entry.lock:A")
                    store = S.ghost.setdefault("__ctxvars__", {})
                    saved = dict(store)
                    store[rc._current_session_context] = SObj(rc._SessionContext, state=self.stA, session_id=A.hex())
                    S.outcome(sk._StickyMiddleware._close_session, self.mw, req2)
                    store.clear()
                    store.update(saved)
                elif op == "reaper_after_ttl":
                    saved_now, self.now = self.now, 10**9
                    S.outcome(sk._SessionRegistry.drain_expired, self.reg)
                    self.now = saved_now
                elif op == "shutdown":
                    S.outcome(sk._SessionRegistry.shutdown, self.reg)
                elif op == "delete":
                    ctx2 = SObj(None, kind="ReqContext")
                    ctx2.closed = True
                    req2 = SObj(None, kind="Req", path="/vgi/__session__", env={"vgi_rpc.server_id": WORKER}, context=ctx2)
                    S.handlers["Req.get_header"], saved_h = (lambda S, r, name, default=None, **kw: "TA" if name == SESSION_HEADER else default), S.handlers.get("Req.get_header")
                    S.outcome(sk._SessionResource.on_delete, self.res, req2, SObj(None, kind="Resp"))
                    if saved_h is not None:
                        S.handlers["Req.get_header"] = saved_h
                elif op == "second_request_after_ttl":
                    # a second request presents the same token after the TTL: registry.get evicts in-line
                    saved_now, self.now = self.now, 10**9
                    S.outcome(sk._SessionRegistry.get, self.reg, A, self.pk)
                    self.now = saved_now
                else:
                    raise Unsupported(f"unknown interference {op}")
            except Blocked:
                pass  # the interfering thread is suspended at a lock the request thread owns
            # a finished thread released everything; one suspended at an entry lock holds nothing (lock order: it is
            # not inside the registry lock there, and it asks for one entry lock at a time)
            self.held["other"][:] = []
        self.origin = saved_origin


SITE_CLASS = {
    "get": "get.inline_expiry",
    "second_request_after_ttl": "get.inline_expiry",
    "drain_expired": "drain_expired",
    "reaper_after_ttl": "drain_expired",
    "shutdown": "shutdown",
    "own_close_session": "close_session",
    "closed_by_another_request": "close_session",
    "delete": "on_delete",
    "close": "registry.close",
}


def hooks(S: Any) -> list[tuple[Any, ...]]:
    return S.events("close_hook")


def oblige_hooks(S: Any, W: World, tag: str, lock_is_callers_duty: bool = False) -> None:
    """O2 / O4 for every close hook that ran on this path."""
    per_state: dict[int, int] = {}
    for _, st, thread, holds_lock, registered, dispatcher, site in hooks(S):
        per_state[id(st)] = per_state.get(id(st), 0) + 1
        S.oblige("O2.close_hook_only_for_an_entry_already_removed_from_the_registry", not registered, kind="lock", witness=site)
        if not lock_is_callers_duty:
            S.oblige("O4.close_hook_runs_with_the_entrys_lock_held", holds_lock, kind="lock", witness=site)
        S.oblige("O4.close_hook_never_runs_while_another_thread_dispatches_against_the_session", dispatcher is None or dispatcher == thread, kind="trace", witness=f"{site}_during_dispatch")
    for n in per_state.values():
        S.oblige("O2.close_hook_at_most_once_per_session", n <= 1, kind="trace", witness=tag)


# ------------------------------------------------------------------------------------------
# O2 / O4 on the registry's own eviction paths (callers hold no entry lock)
# ------------------------------------------------------------------------------------------

REG_OPS = ["get", "drain_expired", "shutdown", "close"]
REACQUIRE = ["none", "reaper_after_ttl", "shutdown", "second_request_after_ttl"]


def replay_registry(inputs: dict[str, Any], ob: Any) -> ReplayResult:
    return native_replay_evictor(inputs.get("op", "drain_expired"))


@unit(
    "C26.O2/O4 registry eviction paths: removed before closed, closed once, closed under the entry lock",
    targets=[
        "vgi_rpc/http/server/_sticky.py::_SessionRegistry.get",
        "vgi_rpc/http/server/_sticky.py::_SessionRegistry.close",
        "vgi_rpc/http/server/_sticky.py::_SessionRegistry.drain_expired",
        "vgi_rpc/http/server/_sticky.py::_SessionRegistry.shutdown",
    ],
    replay=replay_registry,
    min_obligations=20,
)
def registry_paths(S: Any) -> None:
    op = REG_OPS[S.choose(len(REG_OPS))]
    S.inputs["op"] = op
    expA, expB, now = S.int("expires_A"), S.int("expires_B"), S.int("now")
    W = World(S, tracked_expires=expA, now=now)
    W.eB.fields["expires_at"] = expB
    W.origin = op
    # a registry method that lets go of the registry lock and takes it again has a scheduling point in between: by the
    # time it holds the lock again another thread may have run any registry operation to completion
    reacquire = REACQUIRE[S.choose(len(REACQUIRE))]
    S.inputs["interference_at_reacquire"] = reacquire
    n_acq = {"n": 0}

    def on_acquire(S: Any, lid: str) -> None:
        if lid != "registry._lock" or W.cur != "req":
            return
        n_acq["n"] += 1
        if n_acq["n"] == 2 and reacquire != "none":
            W.interfere(reacquire)

    S.handlers["Lock.on_acquire"] = on_acquire
    if op == "get":
        out = S.outcome(sk._SessionRegistry.get, W.reg, A, W.pk)
        ended = [W.stA] if A not in W.entries else []
    elif op == "close":
        out = S.outcome(sk._SessionRegistry.close, W.reg, A)
        ended = [W.stA]
    elif op == "drain_expired":
        out = S.outcome(sk._SessionRegistry.drain_expired, W.reg)
        ended = [st for sid, st in ((A, W.stA), (B_ID, W.stB)) if sid not in W.entries]
    else:
        out = S.outcome(sk._SessionRegistry.shutdown, W.reg)
        ended = [W.stA, W.stB]
    S.oblige("O2.registry_operation_returns", out.returned, kind="raises")
    # registry.close is called by _close_session and on_delete: whether the entry lock is held there is decided at
    # those call sites (request-path and DELETE units), not for the bare method
    oblige_hooks(S, W, op, lock_is_callers_duty=(op == "close"))
    closed = [h[1] for h in hooks(S)]
    S.oblige("O2.every_removed_session_is_closed_exactly_once", sorted(id(s) for s in closed) == sorted(id(s) for s in ended), kind="trace", witness=op)
    S.oblige("O2.all_locks_released", not W.held["req"], kind="lock")
    if op in ("get", "drain_expired") and not S.events("interference"):  # (evictions by the interfering thread are its own)
        S.oblige("O2.only_expired_sessions_are_evicted", And(Implies(A not in W.entries, expA < now), Implies(B_ID not in W.entries, expB < now)), kind="post")
    if op == "drain_expired":
        S.canary("O2.canary.the_reaper_never_evicts", SBool(__import__("z3").BoolVal(not closed)))


# ------------------------------------------------------------------------------------------
# O3 / O4 / O5 on the request path, with interference
# ------------------------------------------------------------------------------------------

SCRIPTS = [(), ("close",), ("close", "open"), ("open",), ("open", "close")]
AT_ACQUIRE = ["none", "closed_by_another_request", "reaper_after_ttl", "shutdown"]
DURING = ["none", "reaper_after_ttl", "shutdown", "delete", "second_request_after_ttl"]


def run_request(S: Any, W: World, token: Any, script: tuple[str, ...], during: str) -> dict[str, Any]:
    ctx = SObj(None, kind="ReqContext")
    ctx.closed = True
    req = SObj(None, kind="Req", path="/vgi/m", env={"vgi_rpc.server_id": WORKER}, context=ctx)
    resp = SObj(None, kind="Resp", complete=False)
    headers = {SESSION_ACCEPT_HEADER: "true"}
    if token is not None:
        headers[SESSION_HEADER] = token
    S.handlers["Req.get_header"] = lambda S, r, name, default=None, **kw: headers.get(name, default)
    rec: dict[str, Any] = {"dispatched": False, "crashed": None, "steps": []}
    o = S.outcome(sk._StickyMiddleware.process_request, W.mw, req, resp)
    if o.raised:
        rec["crashed"] = o.exc
    elif resp.fields["complete"] is not True:
        rec["dispatched"] = True
        me = SObj(CallContext)

        def bound_state() -> Any:
            sc = S.ghost.get("__ctxvars__", {}).get(rc._current_session_context)
            return sc.fields["state"] if sc is not None else None

        def dispatch_point(label: str) -> None:
            """The method runs against whatever session is bound now (ctx.session): a dispatch event."""
            st = bound_state()
            W.note_new_entries()
            if st is None:
                return
            e = W.entry_of_state.get(id(st)) or next((x for x in W.all_new_entries if x.fields["state"] is st), None)
            lid = e.fields["lock"].fields["name"] if e is not None else "?"
            closed_before = any(h[1] is st for h in hooks(S))
            S.event("dispatch", label, st, lid in W.held["req"], closed_before, e is not None and any(x is e for x in W.entries.values()))
            W.dispatching[id(st)] = "req"

        def end_dispatch() -> None:
            W.dispatching.clear()

        dispatch_point("method_entry")
        interfere_after = 0 if token is not None else 1  # while the method runs against a bound session
        if interfere_after == 0:
            W.interfere(during)  # another thread runs while the method is inside its body
        for k, a in enumerate(script):
            if k == interfere_after and k > 0:
                W.interfere(during)
            if a == "open":
                end_dispatch()
                st = SObj(None, kind="State", tag=f"new{W.n_new + 1}")
                r = S.outcome(CallContext.open_session, me, st)
                rec["steps"].append((a, r.returned))
                W.note_new_entries()
                dispatch_point("after_open")
            else:
                # the request closes its own session: it stops dispatching against it when it asks for the close
                end_dispatch()
                W.origin = "own_close_session"
                r = S.outcome(CallContext.close_session, me)
                W.origin = "?"
                rec["steps"].append((a, r.returned))
        if len(script) == interfere_after and interfere_after > 0:
            W.interfere(during)
        end_dispatch()
    o2 = S.outcome(sk._StickyMiddleware.process_response, W.mw, req, resp, None, True)
    if o2.raised and rec["crashed"] is None:
        rec["crashed"] = o2.exc
    return rec


def native_replay_evictor(op: str) -> ReplayResult:
    mod = _native()
    op = {"get": "get_inline_expiry", "second_request_after_ttl": "get_inline_expiry", "reaper_after_ttl": "drain_expired"}.get(op, op)
    ev = bounded_native(mod.replay_a, op if op in ("shutdown", "drain_expired_opened_in_request", "get_inline_expiry") else "drain_expired")
    if ev is None:
        return ReplayResult(True, f"native replay ({op}) deadlocked: some thread waits forever for an entry lock")
    bad = ("close_hook", "during_dispatch") in ev
    return ReplayResult(bad, f"request inside its method, then {op}: {ev}")


def bounded_native(fn: Any, *a: Any) -> Any:
    """Run a native replay in a daemon thread: a replay that deadlocks (a lock that is never released) must not hang
    the checker."""
    box: dict[str, Any] = {}

    def run() -> None:
        try:
            box["r"] = fn(*a)
        except Exception as e:  # pragma: no cover - reported in the replay detail
            box["e"] = e

    t = threading.Thread(target=run, daemon=True)
    t.start()
    t.join(60)
    if "r" in box:
        return box["r"]
    if "e" in box:
        raise box["e"]
    return None


def native_replay_lock_leak() -> ReplayResult:
    ev = bounded_native(_native().replay_c)
    bad = ev is None or ("second_request", "blocked_forever_on_entry_lock") in ev
    return ReplayResult(bad, f"a second request after a completed one on the same session: {ev}")


def native_replay_late_dispatch(how: str = "close_session") -> ReplayResult:
    how = {"closed_by_another_request": "close_session", "reaper_after_ttl": "drain_expired"}.get(how, how)
    out = bounded_native(_native().replay_b, how)
    if out is None:
        return ReplayResult(True, f"native replay ({how}) deadlocked: some thread waits forever for an entry lock")
    ev, res = out
    bad = any(e[0] == "dispatch_begin" and e[2] == "closed" for e in ev)
    return ReplayResult(bad, f"R2 waits on entry.lock while the session ends by {how}: {ev} results={res}")


_NATIVE: dict[str, Any] = {}


def _native() -> Any:
    """The deterministic native replays (threads + events) live next to this file's source as a string so that the
    contract stays a single file; they are executed as a module."""
    if "m" not in _NATIVE:
        import types

        m = types.ModuleType("c26_native_replays")
        exec(compile(NATIVE_SRC, "c26_native_replays", "exec"), m.__dict__)
        _NATIVE["m"] = m
    return _NATIVE["m"]


def replay_request(inputs: dict[str, Any], ob: Any) -> ReplayResult:
    at, during = inputs.get("at_acquire", "none"), inputs.get("during", "none")
    name = getattr(ob, "name", "") or ""
    if "every_entry_lock_is_released" in name:
        return native_replay_lock_leak()
    if at != "none":
        return native_replay_late_dispatch(at)
    if "O3" in name or (not inputs.get("resumed", True) and during in ("reaper_after_ttl", "shutdown")):
        return native_replay_evictor("drain_expired_opened_in_request")
    if during in ("reaper_after_ttl", "shutdown", "second_request_after_ttl"):
        return native_replay_evictor(during)
    if "close_session" in str(getattr(ob, "meta", {}).get("witness", "")):
        return native_replay_late_dispatch("close_session")
    r = native_replay_evictor("drain_expired")
    return r if r.confirmed else native_replay_late_dispatch()


@unit(
    "C26.O3/O4/O5 request path with interference: dispatch under the entry lock, no foreign close during dispatch, no dispatch after close",
    targets=[
        "vgi_rpc/http/server/_sticky.py::_StickyMiddleware.process_request",
        "vgi_rpc/http/server/_sticky.py::_StickyMiddleware._open_session",
        "vgi_rpc/http/server/_sticky.py::_StickyMiddleware._close_session",
        "vgi_rpc/http/server/_sticky.py::_StickyMiddleware.process_response",
        "vgi_rpc/http/server/_sticky.py::_SessionRegistry.get",
        "vgi_rpc/http/server/_sticky.py::_SessionRegistry.close",
        "vgi_rpc/http/server/_sticky.py::_SessionRegistry.drain_expired",
        "vgi_rpc/http/server/_sticky.py::_SessionRegistry.shutdown",
        "vgi_rpc/http/server/_sticky.py::_SessionResource.on_delete",
    ],
    replay=replay_request,
    min_obligations=150,
)
def request_path(S: Any) -> None:
    script = SCRIPTS[S.choose(len(SCRIPTS))]
    resumed = script[:1] != ("open",)
    at = AT_ACQUIRE[S.choose(len(AT_ACQUIRE))] if resumed else "none"
    during = DURING[S.choose(len(DURING))] if at == "none" else "none"
    S.inputs.update({"script": list(script), "resumed": resumed, "at_acquire": at, "during": during})
    W = World(S)
    W.at_acquire = at if at != "none" else None
    rec = run_request(S, W, "TA" if resumed else None, script, during)
    tag = f"script={','.join(script) or '-'}"
    S.oblige("O3.middleware_never_raises", rec["crashed"] is None, kind="raises", witness=tag)
    if rec["crashed"] is not None:
        return
    # O3: exclusive dispatch
    for _, label, st, holds, closed_before, registered in S.events("dispatch"):
        wit = "session_opened_by_this_request" if label == "after_open" else "resumed_session"
        S.oblige("O3.dispatch_only_while_holding_the_sessions_entry_lock", holds, kind="lock", witness=wit)
        S.oblige("O5.no_dispatch_against_a_session_whose_close_hook_has_run", not closed_before, kind="trace", witness=f"{at}_while_waiting_for_the_entry_lock" if at != "none" else wit)
    if at != "none" and resumed:
        S.oblige("O5.a_session_closed_while_the_request_waited_is_reported_lost", not rec["dispatched"] and len(S.events("error_response")) == 1 and exc_is(S.events("error_response")[0][1], SessionLostError), kind="trace", witness=f"{at}_while_waiting_for_the_entry_lock")
    if at == "none" and resumed:
        S.oblige("O3.a_live_session_is_dispatched", rec["dispatched"], kind="trace")
    S.oblige("O3.every_entry_lock_is_released_after_the_request", not W.held["req"], kind="lock", witness=tag)
    # O2 / O4 for every close hook on the path (own close_session, interference)
    oblige_hooks(S, W, tag)
    if script == () and at == "none" and during == "none":
        S.canary("O3.canary.the_request_never_takes_the_entry_lock", SBool(__import__("z3").BoolVal(not [e for e in S.trace if e[0] == "acquire" and e[1] == "entry.lock:A"])))
    if script == ("close",) and at == "none" and during == "none":
        S.canary("O2.canary.close_session_runs_no_hook", SBool(__import__("z3").BoolVal(not hooks(S))))


# ------------------------------------------------------------------------------------------
# O2 / O4 on DELETE as the acting thread (with the session closed by somebody else while it waited)
# ------------------------------------------------------------------------------------------


def replay_delete(inputs: dict[str, Any], ob: Any) -> ReplayResult:
    reg = sk._SessionRegistry(default_ttl=100.0)
    calls: list[str] = []

    class St:
        def close(self) -> None:
            calls.append("held" if lock_owned[0] else "not_held")

    lock_owned = [False]
    sid, _ = reg.open(St(), None, "\x00anonymous")
    entry = reg._entries[sid]

    class Spy:
        def __init__(self, inner: Any) -> None:
            self.inner = inner

        def acquire(self, *a: Any, **k: Any) -> bool:
            r = self.inner.acquire(*a, **k)
            lock_owned[0] = True
            return r

        def release(self) -> None:
            lock_owned[0] = False
            self.inner.release()

        def __enter__(self) -> bool:
            return self.acquire()

        def __exit__(self, *a: Any) -> None:
            self.release()

    entry.lock = Spy(entry.lock)  # type: ignore[assignment]
    tok = sk._seal_session_token("w", sid, int(entry.expires_at), b"k" * 32, sk._compute_aad(None))
    import types

    import falcon

    res = sk._SessionResource(reg, b"k" * 32)
    req = types.SimpleNamespace(get_header=lambda n, d=None: tok if n == SESSION_HEADER else d, env={"vgi_rpc.server_id": "w"}, context=types.SimpleNamespace())
    res.on_delete(req, falcon.Response())  # type: ignore[arg-type]
    res.on_delete(req, falcon.Response())  # type: ignore[arg-type]
    bad = calls != ["held"]
    return ReplayResult(bad, f"two DELETEs of one session: close hook calls {calls}")


@unit(
    "C26.O2/O4 DELETE: closes under the entry lock, never twice",
    targets=["vgi_rpc/http/server/_sticky.py::_SessionResource.on_delete"],
    replay=replay_delete,
    min_obligations=12,
)
def delete_path(S: Any) -> None:
    at = AT_ACQUIRE[S.choose(len(AT_ACQUIRE))]
    S.inputs["at_acquire"] = at
    W = World(S)
    W.at_acquire = at if at != "none" else None
    W.origin = "delete"
    ctx = SObj(None, kind="ReqContext")
    ctx.closed = True
    req = SObj(None, kind="Req", path="/vgi/__session__", env={"vgi_rpc.server_id": WORKER}, context=ctx)
    S.handlers["Req.get_header"] = lambda S, r, name, default=None, **kw: "TA" if name == SESSION_HEADER else default
    out = S.outcome(sk._SessionResource.on_delete, W.res, req, SObj(None, kind="Resp"))
    S.oblige("O2.delete_returns", out.returned, kind="raises")
    oblige_hooks(S, W, f"delete/{at}")
    n = len([h for h in hooks(S) if h[1] is W.stA])
    S.oblige("O2.the_session_is_closed_exactly_once_whoever_wins", n == 1, kind="trace", witness=f"delete/{at}")
    S.oblige("O2.delete_releases_every_lock", not W.held["req"], kind="lock")
    if at == "none":
        S.canary("O4.canary.delete_closes_without_the_entry_lock", SBool(__import__("z3").BoolVal(not any(h[3] for h in hooks(S)))))


# ------------------------------------------------------------------------------------------
# the reaper only ticks drain_expired and survives a failing tick
# ------------------------------------------------------------------------------------------


@unit("C26.O2 reaper thread: every tick is registry.drain_expired() at the current time; a failing tick does not end the loop", targets=["vgi_rpc/http/server/_sticky.py::_ReaperThread.run"], min_obligations=6)
def reaper(S: Any) -> None:
    fails = S.choose(2) == 1
    ticks = {"n": 0}

    def wait(S: Any, ev: Any, timeout: Any = None) -> Any:
        S.event("wait", timeout)
        ticks["n"] += 1
        return ticks["n"] > 2  # two ticks, then stop() was called

    def drain(S: Any, reg: Any, now: Any = None) -> Any:
        S.event("drain_expired", now)
        if fails and ticks["n"] == 1:
            raise PyRaise(SExc(RuntimeError, ("tick failed",)))
        return 0

    S.handlers["StopEvent.wait"] = wait
    S.handlers["_SessionRegistry.drain_expired"] = drain
    for other in ("shutdown", "close", "get", "open", "set_draining"):
        S.handlers[f"_SessionRegistry.{other}"] = (lambda nm: lambda S, reg, *a, **k: S.event(nm, a))(other)
    reg = SObj(sk._SessionRegistry)
    me = SObj(sk._ReaperThread, _registry=reg, _tick=1.0, _stop=SObj(None, kind="StopEvent"))
    out = S.outcome(sk._ReaperThread.run, me)
    S.oblige("O2.reaper_loop_ends_only_when_stopped", out.returned and len(S.events("wait")) == 3, kind="trace")
    S.oblige("O2.every_tick_sweeps_at_the_current_time", [e[1] for e in S.events("drain_expired")] == [None, None], kind="trace")
    S.oblige("O2.reaper_touches_the_registry_only_through_drain_expired", [e[0] for e in S.trace] == ["wait", "drain_expired", "wait", "drain_expired", "wait"], kind="trace")
    S.canary("O2.canary.reaper_never_sweeps", SBool(__import__("z3").BoolVal(not S.events("drain_expired"))))


# ------------------------------------------------------------------------------------------
# native replays (deterministic: threads + events; an instrumented RLock tells when somebody waits for it)
# ------------------------------------------------------------------------------------------

NATIVE_SRC = r'''
import threading, time, warnings
from typing import Any, Protocol
import vgi_rpc.http.server._sticky as sk
from vgi_rpc.rpc import RpcServer, CallContext


class SpyLock:
    """An RLock that tells when somebody had to wait for it."""

    def __init__(self) -> None:
        self.inner = threading.RLock()
        self.waiting = threading.Event()

    def acquire(self, blocking: bool = True, timeout: float = -1) -> bool:
        if self.inner.acquire(blocking=False):
            return True
        self.waiting.set()
        return self.inner.acquire(blocking, timeout)

    def release(self) -> None:
        self.inner.release()

    def __enter__(self) -> bool:
        return self.acquire()

    def __exit__(self, *a: Any) -> None:
        self.release()


class St:
    def __init__(self, ev: list) -> None:
        self.ev, self.closed, self.dispatching = ev, 0, 0

    def close(self) -> None:
        self.ev.append(("close_hook", "during_dispatch" if self.dispatching else "idle"))
        self.closed += 1


class P(Protocol):
    def open(self) -> int: ...
    def open_and_work(self) -> int: ...
    def work(self, tag: str) -> str: ...
    def close_it(self, tag: str) -> str: ...


def world():
    from vgi_rpc.http import http_connect
    from vgi_rpc.http._testing import make_sync_client

    ev: list = []
    inside, go = threading.Event(), threading.Event()

    class Impl:
        def open(self, ctx: CallContext) -> int:
            ctx.open_session(St(ev))
            return 1

        def open_and_work(self, ctx: CallContext) -> int:
            st = St(ev)
            ctx.open_session(st)
            ev.append(("dispatch_begin", "opener", "open"))
            st.dispatching += 1
            inside.set()
            go.wait(10)
            st.dispatching -= 1
            ev.append(("dispatch_end", "opener"))
            return 1

        def work(self, tag: str, ctx: CallContext) -> str:
            st = ctx.session
            ev.append(("dispatch_begin", tag, "closed" if st.closed else "open"))
            st.dispatching += 1
            if tag == "blocker":
                inside.set()
                go.wait(10)
            st.dispatching -= 1
            ev.append(("dispatch_end", tag))
            return tag

        def close_it(self, tag: str, ctx: CallContext) -> str:
            st = ctx.session
            ev.append(("dispatch_begin", tag, "closed" if st.closed else "open"))
            st.dispatching += 1
            inside.set()
            go.wait(10)
            st.dispatching -= 1
            ctx.close_session()
            ev.append(("dispatch_end", tag))
            return tag

    saved = sk.threading

    class T:  # the registry creates SpyLocks
        RLock = SpyLock
        Lock = staticmethod(threading.Lock)
        Thread = threading.Thread
        Event = threading.Event

    sk.threading = T  # type: ignore
    with warnings.catch_warnings():
        warnings.simplefilter("ignore")
        client = make_sync_client(RpcServer(P, Impl()), enable_sticky=True, token_key=b"k" * 32)
    reg = next(m._registry for m in client._client.app._unprepared_middleware if isinstance(m, sk._StickyMiddleware))
    return client, reg, http_connect(P, client=client), ev, inside, go, saved


def wait_until(pred, timeout=10.0):
    t0 = time.time()
    while not pred():
        if time.time() - t0 > timeout:
            return False
        time.sleep(0.002)
    return True


def replay_a(op: str):
    """A request is inside its method; the reaper/operator evicts the session (drain_expired(now=inf) / shutdown)."""
    client, reg, proxy_cm, ev, inside, go, saved = world()
    try:
        with proxy_cm as proxy, proxy.with_session_token() as sess:
            if op.endswith("opened_in_request"):
                t = threading.Thread(daemon=True, target=lambda: sess.open_and_work())
            else:
                sess.open()
                t = threading.Thread(daemon=True, target=lambda: sess.work(tag="blocker"))
            t.start()
            inside.wait(10)
            entry = next(iter(reg._entries.values()))
            if op == "get_inline_expiry":
                # the TTL passes while the first request is still inside its method; a second request presents the token
                entry.expires_at = 0.0
                tok = sess.current_session_token()

                def second():
                    with proxy.with_session_token(token=tok) as s2:
                        try:
                            s2.work(tag="R2")
                        except Exception as e:
                            ev.append(("second_request", type(e).__name__))
                        s2._token = None

                d = threading.Thread(daemon=True, target=second)
            else:
                d = threading.Thread(daemon=True, target=reg.shutdown if op == "shutdown" else (lambda: reg.drain_expired(now=float("inf"))))
            d.start()
            wait_until(lambda: not d.is_alive() or entry.lock.waiting.is_set())
            ev.append(("evictor", "finished" if not d.is_alive() else "blocked_on_entry_lock"))
            go.set()
            t.join(10)
            d.join(10)
            sess._token = None
    finally:
        sk.threading = saved
        client.close()
    return ev


def replay_c(script: str = ""):
    """Lock leak: after a request on a session has completed, a second request on it must get the entry lock."""
    client, reg, proxy_cm, ev, inside, go, saved = world()
    done = threading.Event()
    try:
        with proxy_cm as proxy, proxy.with_session_token() as sess:
            go.set()
            sess.open()
            tok = sess.current_session_token()
            sess.work(tag="first")

            def second():
                with proxy.with_session_token(token=tok) as s2:
                    try:
                        s2.work(tag="second")
                    except Exception as e:
                        ev.append(("second", type(e).__name__))
                    s2._token = None
                done.set()

            threading.Thread(daemon=True, target=second).start()
            ev.append(("second_request", "completed" if done.wait(5) else "blocked_forever_on_entry_lock"))
            sess._token = None
    finally:
        sk.threading = saved
    return ev


def replay_b(how: str = "close_session"):
    """R2 waits on entry.lock (it passed registry.get) while the session ends: R1's method calls close_session(),
    or the reaper (drain_expired after the TTL) / shutdown evicts it while R1 is still inside its method."""
    client, reg, proxy_cm, ev, inside, go, saved = world()
    res = {}
    try:
        with proxy_cm as proxy, proxy.with_session_token() as sess:
            sess.open()
            tok = sess.current_session_token()
            entry = next(iter(reg._entries.values()))

            def r1():
                try:
                    res["R1"] = sess.close_it(tag="R1") if how == "close_session" else sess.work(tag="blocker")
                except Exception as e:
                    res["R1"] = type(e).__name__

            def r2():
                with proxy.with_session_token(token=tok) as s2:
                    try:
                        res["R2"] = s2.work(tag="R2")
                    except Exception as e:
                        res["R2"] = f"{type(e).__name__}: {str(e)[:60]}"
                    s2._token = None

            t1 = threading.Thread(daemon=True, target=r1)
            t1.start()
            inside.wait(10)
            t2 = threading.Thread(daemon=True, target=r2)
            t2.start()
            wait_until(lambda: entry.lock.waiting.is_set())
            d = None
            if how != "close_session":
                d = threading.Thread(daemon=True, target=reg.shutdown if how == "shutdown" else (lambda: reg.drain_expired(now=float("inf"))))
                d.start()
                wait_until(lambda: not d.is_alive() or len(reg._entries) == 0)
            go.set()
            t1.join(10)
            t2.join(10)
            if d is not None:
                d.join(10)
            sess._token = None
    finally:
        sk.threading = saved
        client.close()
    return ev, res
'''
