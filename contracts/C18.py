"""C18 Compression codecs round-trip and respect output caps (DESIGN §5 C18).

Under contract: ``decompress`` / ``compress`` (dispatch, identity arm), ``_decompress_body_zstd`` (declared-size
arm and streaming arm), ``_decompress_body_gzip`` (streaming loop + flush tail), ``_zstd_content_size``.
The zstandard / zlib decoder objects are assumed externals (contracts/lib_codec_model.py); the decoded stream
``D`` is the library's ghost value.  ``decompress(compress(x)) == x`` itself is the libraries' and is only
covered by the labelled bounded stand-in.
"""

from __future__ import annotations

import importlib.util
import os
import sys
import zlib

import z3
import zstandard

import vgi_rpc._codec as codec
from pyvc.api import *  # noqa: F403
from pyvc.api import BoundedResult, PyRaise, ReplayResult, SExc, bounded, exc_class, unit


def _load(name):
    p = os.path.join(os.path.dirname(os.path.abspath(__file__)), name + ".py")
    spec = importlib.util.spec_from_file_location("contracts_" + name, p)
    mod = importlib.util.module_from_spec(spec)
    sys.modules[spec.name] = mod
    spec.loader.exec_module(mod)
    return mod


lib = _load("lib_codec_model")
blen, sbytes = lib.blen, lib.sbytes

MANIFEST = {
    "level_text": "Unbounded deductive proof of the cap logic of every codec over the real code: for every decoded stream D, every cap m >= 0 and every way the zstd reader / zlib decompressobj may chunk their output, decompress returns exactly D when m is None, returns D iff len(D) <= m and raises DecompressionLimitExceeded otherwise - zstd declared-size arm, zstd streaming (size-less) arm, gzip streaming loop including the flush tail, and identity; _zstd_content_size maps both 'unknown' sentinels to None; compress/decompress dispatch is total over the enum and raises ValueError only for non-members. Tests use a few payloads; the proof covers every length relation, including exactly-at-cap and cap+1.",
    "level_note": "The round-trip clause decompress(compress(x)) == x is the libraries' and is NOT proved: bounded stand-in only (all byte strings of length <= 3 over a 4-symbol alphabet and structured inputs up to 1 MiB, all levels, one-shot and streaming frames, caps {0,len-1,len,len+1,large}). Assumes the zstandard/zlib reader contracts of contracts/lib_codec_model.py (bounded stand-in on the real libraries), honest size headers (the one-shot API rejects a frame whose length differs from its header), well-formed complete frames (no library error), m >= 0; loop termination not verified; engine + z3/cvc5 trusted.",
    "technique": "contract-based deductive verification: loop invariants over ghost decoder state (consumed/pending split of the decoded stream), VCs from the real AST (pyvc), z3/cvc5; labelled bounded stand-in for the library round trip",
    "design_ref": "DESIGN.md §5 C18",
}
EXPLANATION = MANIFEST["level_text"]
TRUSTED = [
    "pyvc VC generator and its encoding of Python ints/bytes/lists (DESIGN §3.1); list-of-bytes concatenation ghost maintained by append",
    "z3 5.1.0 / cvc5 1.4.0",
    "zstandard: get_frame_parameters().content_size is the header field (-1 or 2**64-1 when absent); ZstdDecompressor.decompress returns the whole stream only when its length equals the declared size and refuses size-less frames; stream_reader.read(n>=1) returns at most n bytes, a prefix of the pending decoded stream, empty only when nothing is pending; read(0) == b''; read() returns everything pending",
    "zlib: decompressobj.decompress(buf, n>=1) returns at most n bytes, a prefix of the pending decoded stream, and when it returns fewer than n bytes nothing is pending and unconsumed_tail is empty; max_length 0 means unlimited; flush() decodes unconsumed_tail without limit and returns everything pending",
]
ASSUMPTIONS = [
    "decompress(compress(x)) == x is the libraries' property: bounded stand-in only (never counted as discharged)",
    "frames are well-formed and complete (outputs of a compressor): the decoders raise no error of their own",
    "a zstd frame that declares a size decodes to exactly that many bytes (enforced by the one-shot API, which raises otherwise)",
    "max_output_size >= 0 when given",
    "termination of the decode loops is not verified",
]

U64MAX = 2**64 - 1
Limit = codec.DecompressionLimitExceeded


# ------------------------------------------------------------------------------------------
# native helpers (replay / search / bounded)
# ------------------------------------------------------------------------------------------


def zstd_frame(D: bytes, declared: bool, level: int = 3, window_log: int | None = None) -> bytes:
    """window_log: the frame header's window as the level tables of the high levels (20-22: logs 25-27) write it for
    streaming input, produced cheaply with explicit parameters instead of building a level-22 compressor."""
    kw = {"level": level} if window_log is None else {"compression_params": zstandard.ZstdCompressionParameters.from_level(level, window_log=window_log)}
    if declared:
        return zstandard.ZstdCompressor(**kw).compress(D)
    co = zstandard.ZstdCompressor(**kw).compressobj()  # streaming: size unknown up front
    return co.compress(D) + co.flush()


def gzip_frame(D: bytes, level: int = 6, pieces: int = 1) -> bytes:
    co = zlib.compressobj(level, zlib.DEFLATED, 31)
    if pieces <= 1 or len(D) < pieces:
        return co.compress(D) + co.flush(zlib.Z_FINISH)
    step = len(D) // pieces
    out = b""
    for i in range(0, len(D), step):
        out += co.compress(D[i : i + step]) + co.flush(zlib.Z_SYNC_FLUSH)
    return out + co.flush(zlib.Z_FINISH)


def judge_native(fn, D: bytes, m):
    """Run ``fn()`` natively and judge the C18 cap property against the original ``D``.  -> (bad, text)"""
    try:
        r = fn()
    except Limit as e:
        bad = m is None or len(D) <= m
        return bad, f"raised DecompressionLimitExceeded({e}) with len(D)={len(D)} cap={m}"
    except Exception as e:
        return True, f"raised {type(e).__name__}: {e} (len(D)={len(D)} cap={m})"
    if r != D:
        return True, f"returned {len(r)} bytes != the {len(D)} original bytes (cap={m})"
    if m is not None and len(D) > m:
        return True, f"returned all {len(D)} bytes although cap={m}"
    return False, f"returned the original {len(D)} bytes (cap={m})"


def _cap_of(inputs):
    return inputs["max_output_size"] if inputs.get("capped") else None


def _D_of(inputs):
    D = inputs.get("D", b"")
    return D if isinstance(D, bytes) else b""


def replay_zstd(inputs, ob):
    D, m = _D_of(inputs), _cap_of(inputs)
    frame = zstd_frame(D, inputs.get("header") == "declared", window_log=inputs.get("window_log"))
    bad, txt = judge_native(lambda: codec._decompress_body_zstd(frame, max_output_size=m), D, m)
    return ReplayResult(bad, f"_decompress_body_zstd({inputs.get('header')} frame of {len(D)} bytes, max_output_size={m}) {txt}")


def replay_gzip(inputs, ob):
    D, m = _D_of(inputs), _cap_of(inputs)
    bad, txt = judge_native(lambda: codec._decompress_body_gzip(gzip_frame(D), max_output_size=m), D, m)
    return ReplayResult(bad, f"_decompress_body_gzip(gzip of {len(D)} bytes, max_output_size={m}) {txt}")


def _grid():
    for n in (0, 1, 2, 3, 5, 65535, 65536, 65537, 200000):
        D = bytes((i * 7 + 3) % 251 for i in range(n))
        for m in (None, 0, n - 1, n, n + 1, 10**9):
            if m is None or m >= 0:
                yield D, m


def search_zstd(ob, seed):
    for wlog in (None, 27, 23):
        for header in ("declared", "unknown"):
            for D, m in _grid():
                if wlog is not None and len(D) not in (1, 65537):
                    continue
                inputs = {"D": D, "capped": m is not None, "max_output_size": m, "header": header, "window_log": wlog}
                rr = replay_zstd(inputs, ob)
                if rr.confirmed:
                    return {**inputs, "D": D[:64]}, rr
    return None


def search_gzip(ob, seed):
    for D, m in _grid():
        inputs = {"D": D, "capped": m is not None, "max_output_size": m}
        rr = replay_gzip(inputs, ob)
        if rr.confirmed:
            return {**inputs, "D": D[:64]}, rr
    return None


# ------------------------------------------------------------------------------------------
# the postcondition of C18 (from the property statement), shared by all arms
# ------------------------------------------------------------------------------------------


def judge(S, tag, out, D, m):
    if out.raised:
        if exc_is(out.exc, Limit):
            S.oblige(f"O1.{tag}.limit_error_only_under_a_cap", m is not None, kind="raises")
            if m is not None:
                S.oblige(f"O1.{tag}.limit_error_only_when_stream_is_longer_than_cap", blen(D) > m, kind="raises")
        else:
            S.oblige(f"O1.{tag}.no_other_exception_on_a_wellformed_stream", False, kind="raises", why=repr(out.exc))
        return
    S.oblige(f"O1.{tag}.returns_the_whole_decoded_stream", eq(out.value, D))
    if m is not None:
        S.oblige(f"O1.{tag}.returned_stream_fits_the_cap", blen(D) <= m)


def mk_inputs(S):
    capped = S.choose(2) == 1
    data, D = sbytes("data"), sbytes("D")
    S.inputs["D"] = D
    S.inputs["capped"] = capped
    m = None
    if capped:
        m = S.int("max_output_size")
        S.assume(m >= 0)
    S.assume(Implies(blen(data) == 0, blen(D) == 0))  # nothing in, nothing out
    return capped, data, D, m


# ------------------------------------------------------------------------------------------
# C18.O2  _zstd_content_size
# ------------------------------------------------------------------------------------------


def replay_content_size(inputs, ob):
    from types import SimpleNamespace
    from unittest import mock

    raw = inputs["content_size"]
    with mock.patch.object(zstandard, "get_frame_parameters", lambda d: SimpleNamespace(content_size=raw)):
        r = codec._zstd_content_size(b"frame")
    want = None if raw in (-1, U64MAX) else raw
    detail = f"_zstd_content_size with header field {raw} -> {r!r}, expected {want!r}"
    if 0 <= raw < U64MAX:
        # the same value through the real header parser: magic, FHD (single segment, 8-byte FCS), FCS
        hdr = b"\x28\xb5\x2f\xfd" + bytes([0xE0]) + raw.to_bytes(8, "little")
        try:
            r2 = codec._zstd_content_size(hdr)
            detail += f"; real header parser -> {r2!r}"
            if r2 != want:
                return ReplayResult(True, detail)
        except Exception as e:  # pragma: no cover
            detail += f"; real header parser raised {type(e).__name__}"
    return ReplayResult(r != want or (r is not None and type(r) is not int), detail)


@unit("C18.O2 _zstd_content_size maps both unknown-size sentinels to None", targets=["vgi_rpc/_codec.py::_zstd_content_size"], replay=replay_content_size, min_obligations=3)
def content_size(S):
    raw = S.int("content_size")
    data = sbytes("data")
    fails = S.choose(2) == 1

    def params(S, d):
        S.oblige("O2.header_read_from_the_argument", d is data, kind="pre")
        if fails:
            raise PyRaise(SExc(zstandard.ZstdError, ("not enough data for frame parameters",)))
        return SObj(None, kind="FrameParameters", content_size=raw)

    S.handlers[zstandard.get_frame_parameters] = params
    out = S.outcome(codec._zstd_content_size, data)
    if fails:
        S.oblige("O2.library_error_propagates", out.raised and exc_is(out.exc, zstandard.ZstdError), kind="raises")
        return
    S.oblige("O2.raises_nothing_of_its_own", out.returned, kind="raises")
    if not out.returned:
        return
    if out.value is None:
        S.oblige("O2.none_only_for_a_sentinel", Or(raw == -1, raw == U64MAX))
        S.canary("O2.canary.only_the_signed_sentinel", raw == -1)
    else:
        S.oblige("O2.sentinels_never_returned_as_a_size", And(raw != -1, raw != U64MAX))
        S.oblige("O2.returns_the_declared_size", eq(out.value, raw))


# ------------------------------------------------------------------------------------------
# C18.O1  zstd arms
# ------------------------------------------------------------------------------------------


@unit(
    "C18.O1z _decompress_body_zstd: declared-size arm and streaming arm respect the cap",
    targets=["vgi_rpc/_codec.py::_decompress_body_zstd", "vgi_rpc/_codec.py::_zstd_content_size"],
    replay=replay_zstd,
    search=search_zstd,
    min_obligations=20,
)
def zstd_arm(S):
    capped, data, D, m = mk_inputs(S)
    header = ["declared", "unknown", "unknown_signed"][S.choose(3)]
    S.inputs["header"] = "declared" if header == "declared" else "unknown"
    declared = None
    if header == "declared":
        declared = S.int("declared")
        S.assume(And(declared >= 0, declared < U64MAX))
        S.assume(declared == blen(D))  # honest header (the one-shot API raises when they differ)
    L = lib.CodecLibs(S, data, D, m, declared=declared, unknown_sentinel=U64MAX if header == "unknown" else -1)
    L.install_loops()
    S.inline.add("_zstd_content_size")
    out = S.outcome(codec._decompress_body_zstd, data, max_output_size=m)
    judge(S, "zstd." + ("declared" if declared is not None else "streaming"), out, D, m)
    if out.returned and capped:
        S.canary("O1.zstd.canary.never_exactly_at_cap", blen(D) < m)
    if out.raised and capped:
        S.canary("O1.zstd.canary.refuses_only_far_beyond_cap", blen(D) > m + 1)


# ------------------------------------------------------------------------------------------
# C18.O1  gzip arm
# ------------------------------------------------------------------------------------------


@unit(
    "C18.O1g _decompress_body_gzip: streaming loop and flush tail respect the cap",
    targets=["vgi_rpc/_codec.py::_decompress_body_gzip"],
    replay=replay_gzip,
    search=search_gzip,
    min_obligations=12,
)
def gzip_arm(S):
    capped, data, D, m = mk_inputs(S)
    L = lib.CodecLibs(S, data, D, m)
    L.install_loops()
    out = S.outcome(codec._decompress_body_gzip, data, max_output_size=m)
    judge(S, "gzip", out, D, m)
    if out.returned and capped:
        S.canary("O1.gzip.canary.never_exactly_at_cap", blen(D) < m)


# ------------------------------------------------------------------------------------------
# C18.O1/O3  decompress: dispatch + identity arm
# ------------------------------------------------------------------------------------------

NON_MEMBERS = ["zstd", None, 3]


def _enc_of(inputs):
    e = inputs["encoding"]
    return codec.Encoding[e[7:]] if isinstance(e, str) and e.startswith("member:") else {"str": "zstd", "none": None, "int": 3}[e]


def replay_decompress(inputs, ob):
    enc, m = _enc_of(inputs), _cap_of(inputs)
    data = inputs.get("data", b"")
    data = data if isinstance(data, bytes) else b""
    if not isinstance(enc, codec.Encoding):
        try:
            r = codec.decompress(enc, data, max_output_size=m)
        except ValueError:
            return ReplayResult(False, "non-member raised ValueError")
        except Exception as e:
            return ReplayResult(True, f"decompress({enc!r}, ...) raised {type(e).__name__} instead of ValueError")
        return ReplayResult(True, f"decompress({enc!r}, ...) returned {r!r} instead of raising ValueError")
    wire = codec.compress(enc, data)
    bad, txt = judge_native(lambda: codec.decompress(enc, wire, max_output_size=m), data, m)
    return ReplayResult(bad, f"decompress({enc}, compress({len(data)} bytes), max_output_size={m}) {txt}")


def _enc_choice(S):
    members = list(codec.Encoding)
    k = S.choose(len(members) + len(NON_MEMBERS))
    if k < len(members):
        S.inputs["encoding"] = "member:" + members[k].name
        return members[k]
    S.inputs["encoding"] = ["str", "none", "int"][k - len(members)]
    return NON_MEMBERS[k - len(members)]


@unit(
    "C18.O1i/O3 decompress: total dispatch over the enum, identity arm respects the cap",
    targets=["vgi_rpc/_codec.py::decompress"],
    replay=replay_decompress,
    min_obligations=14,
)
def decompress_dispatch(S):
    enc = _enc_choice(S)
    capped = S.choose(2) == 1
    S.inputs["capped"] = capped
    data = sbytes("data")
    S.inputs["data"] = data
    m = None
    if capped:
        m = S.int("max_output_size")
        S.assume(m >= 0)
    R = sbytes("helper_result")
    state = {}

    def helper(tag):
        def h(S, d, *, max_output_size=None):
            S.event("helper", tag, d, max_output_size)
            mode = S.choose(3)
            if mode == 1:
                state["exc"] = SExc(Limit, ("too large",))
                raise PyRaise(state["exc"])
            if mode == 2:
                state["exc"] = SExc(zstandard.ZstdError if tag == "zstd" else zlib.error, ("corrupt",))
                raise PyRaise(state["exc"])
            return R

        return h

    S.handlers["_decompress_body_zstd"] = helper("zstd")
    S.handlers["_decompress_body_gzip"] = helper("gzip")
    out = S.outcome(codec.decompress, enc, data, max_output_size=m)
    calls = S.events("helper")
    if not isinstance(enc, codec.Encoding):
        S.oblige("O3.decompress.non_member_raises_ValueError", out.raised and exc_is(out.exc, ValueError) and not calls, kind="raises")
        return
    S.oblige("O3.decompress.member_never_hits_the_ValueError_fallthrough", not (out.raised and exc_is(out.exc, ValueError)), kind="raises")
    if enc is codec.Encoding.IDENTITY:
        S.oblige("O3.decompress.identity_uses_no_decoder", not calls, kind="trace")
        judge(S, "identity", out, data, m)
        if out.returned and capped:
            S.canary("O1.identity.canary.never_exactly_at_cap", blen(data) < m)
        return
    want = "zstd" if enc is codec.Encoding.ZSTD else "gzip"
    S.oblige("O3.decompress.exactly_one_decoder_call_of_the_named_codec", len(calls) == 1 and calls[0][1] == want, kind="trace")
    if len(calls) == 1:
        d, mos = calls[0][2], calls[0][3]
        S.oblige("O3.decompress.decoder_gets_the_data", eq(d, data) if isinstance(d, (SBytes, bytes)) else False)
        S.oblige("O3.decompress.decoder_gets_the_cap", eq(mos, m) if (mos is None) == (m is None) else False)
    if out.returned:
        S.oblige("O3.decompress.returns_the_decoder_result", eq(out.value, R) if isinstance(out.value, (SBytes, bytes)) and "exc" not in state else False)
    else:
        S.oblige("O3.decompress.decoder_exception_propagates", "exc" in state and exc_class(out.exc) is state["exc"].cls, kind="raises")


# ------------------------------------------------------------------------------------------
# C18.O3  compress: dispatch
# ------------------------------------------------------------------------------------------


def replay_compress(inputs, ob):
    enc = _enc_of(inputs)
    data = inputs.get("data", b"")
    data = data if isinstance(data, bytes) else b""
    level = inputs.get("level") if inputs.get("has_level") else None
    if not isinstance(enc, codec.Encoding):
        try:
            r = codec.compress(enc, data, level=level)
        except ValueError:
            return ReplayResult(False, "non-member raised ValueError")
        except Exception as e:
            return ReplayResult(True, f"compress({enc!r}, ...) raised {type(e).__name__} instead of ValueError")
        return ReplayResult(True, f"compress({enc!r}, ...) returned {r!r} instead of raising ValueError")
    if level is not None and not (-5 <= level <= (9 if enc is codec.Encoding.GZIP else 22)):
        level = 1
    try:
        wire = codec.compress(enc, data, level=level)
        back = codec.decompress(enc, wire)
    except Exception as e:
        return ReplayResult(True, f"compress/decompress({enc}, level={level}) raised {type(e).__name__}: {e}")
    return ReplayResult(back != data, f"compress({enc}, {len(data)} bytes, level={level}) -> {len(wire)} bytes, round trip {'ok' if back == data else 'DIFFERS'}")


@unit("C18.O3 compress: total dispatch over the enum", targets=["vgi_rpc/_codec.py::compress"], replay=replay_compress, min_obligations=10)
def compress_dispatch(S):
    enc = _enc_choice(S)
    has_level = S.choose(2) == 1
    S.inputs["has_level"] = has_level
    data = sbytes("data")
    S.inputs["data"] = data
    level = S.int("level") if has_level else None
    C = sbytes("compressed")

    def helper(tag):
        def h(S, d, lvl):
            S.event("helper", tag, d, lvl)
            return C

        return h

    S.handlers["_compress_body_zstd"] = helper("zstd")
    S.handlers["_compress_body_gzip"] = helper("gzip")
    out = S.outcome(codec.compress, enc, data, level=level)
    calls = S.events("helper")
    if not isinstance(enc, codec.Encoding):
        S.oblige("O3.compress.non_member_raises_ValueError", out.raised and exc_is(out.exc, ValueError) and not calls, kind="raises")
        return
    S.oblige("O3.compress.member_returns", out.returned, kind="raises")
    if not out.returned:
        return
    if enc is codec.Encoding.IDENTITY:
        S.oblige("O3.compress.identity_uses_no_encoder", not calls, kind="trace")
        S.oblige("O3.compress.identity_returns_the_data_unchanged", eq(out.value, data) if isinstance(out.value, (SBytes, bytes)) else False)
        return
    want = "zstd" if enc is codec.Encoding.ZSTD else "gzip"
    S.oblige("O3.compress.exactly_one_encoder_call_of_the_named_codec", len(calls) == 1 and calls[0][1] == want, kind="trace")
    if len(calls) == 1:
        lvl = calls[0][3]
        S.oblige("O3.compress.encoder_gets_the_data", eq(calls[0][2], data) if isinstance(calls[0][2], (SBytes, bytes)) else False)
        if has_level:
            S.oblige("O3.compress.requested_level_is_used", eq(lvl, level) if isinstance(lvl, (SInt, int)) else False)
        else:
            S.oblige("O3.compress.default_level_is_a_concrete_int", isinstance(lvl, int) and not isinstance(lvl, bool), kind="trace")
        S.oblige("O3.compress.returns_the_encoder_output", eq(out.value, C) if isinstance(out.value, (SBytes, bytes)) else False)
    S.canary("O3.compress.canary.never_calls_an_encoder", SBool(z3.BoolVal(not calls)))


# ------------------------------------------------------------------------------------------
# bounded stand-ins (labelled bounded; never counted as discharged)
# ------------------------------------------------------------------------------------------

ALPHABET = (0x00, 0x61, 0x7F, 0xFF)


def _small_strings():
    import itertools

    for n in range(4):
        for t in itertools.product(ALPHABET, repeat=n):
            yield bytes(t)


def _structured(rnd, sizes):
    for n in sizes:
        yield b"\x00" * n
        yield (b"vgi-rpc arrow ipc " * (n // 18 + 1))[:n]
        yield rnd.randbytes(n)
        half = n // 2
        yield rnd.randbytes(half) + b"\xab" * (n - half)


def _caps(n):
    return [None] + sorted({c for c in (0, n - 1, n, n + 1, n + 65536, 2**40) if c >= 0})


ZSTD_LEVELS = [lv for lv in range(-5, zstandard.MAX_COMPRESSION_LEVEL + 1)]
GZIP_LEVELS = list(range(-1, 10))


@bounded(
    "O4.round_trip_and_caps_on_the_real_codecs",
    bound="all byte strings of length <= 3 over {00,61,7f,ff} at every level (zstd -5..22, gzip -1..9, identity) plus structured inputs (zeros, text, random, mixed) of 4 KiB, 65535, 65536, 65537 bytes and 1 MiB (quick: levels zstd {-1,1,3,19} / gzip {1,6,9}; thorough: all levels); frames from compress(), the zstd streaming compressor (no size header; also with the header window logs 25-27 of levels 20-22) and multi-flush gzip streams; caps {None,0,len-1,len,len+1,len+64Ki,2^40}",
    tiers=("quick", "thorough"),
)
def standin_round_trip(tier, seed):
    import random

    rnd = random.Random(seed)
    E = codec.Encoding
    n = 0
    fails: list[str] = []

    def check(label, enc, wire, x):
        nonlocal n
        for m in _caps(len(x)):
            n += 1
            bad, txt = judge_native(lambda: codec.decompress(enc, wire, max_output_size=m), x, m)
            if bad and len(fails) < 10:
                fails.append(f"{label}: decompress {txt}")

    for x in _small_strings():
        check("identity", E.IDENTITY, codec.compress(E.IDENTITY, x), x)
        for lv in [None] + ZSTD_LEVELS:
            check(f"zstd level={lv} x={x!r}", E.ZSTD, codec.compress(E.ZSTD, x, level=lv), x)
        for lv in [None] + GZIP_LEVELS:
            check(f"gzip level={lv} x={x!r}", E.GZIP, codec.compress(E.GZIP, x, level=lv), x)
        check(f"zstd streaming frame x={x!r}", E.ZSTD, zstd_frame(x, declared=False), x)
    big_z = ZSTD_LEVELS if tier == "thorough" else [-1, 1, 3, 19]
    big_g = GZIP_LEVELS if tier == "thorough" else [1, 6, 9]
    for x in _structured(rnd, (4096, 65535, 65536, 65537, 1 << 20)):
        check(f"identity {len(x)} bytes", E.IDENTITY, x, x)
        for lv in big_z:
            if lv >= 19 and len(x) > 70000 and tier != "thorough":
                continue
            check(f"zstd level={lv} {len(x)} bytes", E.ZSTD, codec.compress(E.ZSTD, x, level=lv), x)
        for lv in big_g:
            check(f"gzip level={lv} {len(x)} bytes", E.GZIP, codec.compress(E.GZIP, x, level=lv), x)
        check(f"zstd streaming frame {len(x)} bytes", E.ZSTD, zstd_frame(x, declared=False), x)
        check(f"gzip multi-flush stream {len(x)} bytes", E.GZIP, gzip_frame(x, pieces=5), x)
    # streaming frames whose header carries the window of the high levels (20-22 write window logs 25-27)
    for x in (b"x", bytes(range(256)) * 300):
        for wlog in (25, 26, 27):
            check(f"zstd streaming frame window_log={wlog} {len(x)} bytes", E.ZSTD, zstd_frame(x, declared=False, window_log=wlog), x)
            check(f"zstd one-shot frame window_log={wlog} {len(x)} bytes", E.ZSTD, zstd_frame(x, declared=True, window_log=wlog), x)
    return BoundedResult(n, fails)


@bounded(
    "O0.zstd_zlib_reader_contracts_on_the_real_libraries",
    bound="payloads (zeros, text, random, mixed) of 0, 1, 1000, 65536, 300000 bytes; read sizes {1, 7, 4096, 65536}; checks every clause of contracts/lib_codec_model.py that the proofs use",
    tiers=("quick", "thorough"),
)
def standin_reader_contracts(tier, seed):
    import random

    rnd = random.Random(seed + 1)
    n = 0
    fails: list[str] = []

    def bad(msg):
        if len(fails) < 10:
            fails.append(msg)

    payloads = [b""] + list(_structured(rnd, (1, 1000, 65536, 300000)))
    for x in payloads:
        for size in (1, 7, 4096, 65536):
            if size < 7 and len(x) > 70000:
                continue
            # zstandard: header field, one-shot API, stream reader
            for declared in (True, False):
                f = zstd_frame(x, declared)
                n += 1
                cs = zstandard.get_frame_parameters(f).content_size
                if declared and cs != len(x):
                    bad(f"zstd declared frame reports content_size {cs} != {len(x)}")
                if not declared and len(x) > 0 and cs not in (-1, U64MAX):
                    bad(f"zstd streaming frame reports content_size {cs}")
                try:
                    one = zstandard.ZstdDecompressor().decompress(f)
                    if not declared and len(x) > 0:
                        bad("one-shot API accepted a size-less frame")
                    elif one != x:
                        bad("one-shot output differs")
                except zstandard.ZstdError:
                    if declared:
                        bad("one-shot API refused a frame with a declared size")
                with zstandard.ZstdDecompressor().stream_reader(f) as r:
                    if r.read(0) != b"":
                        bad("read(0) returned data")
                    got = b""
                    while True:
                        c = r.read(size)
                        if len(c) > size:
                            bad(f"zstd read({size}) returned {len(c)} bytes")
                        if not c:
                            break
                        got += c
                    if got != x:
                        bad(f"zstd reader stopped after {len(got)} of {len(x)} bytes (read size {size})")
                with zstandard.ZstdDecompressor().stream_reader(f) as r:
                    if r.read() != x:
                        bad("zstd read() did not return the whole stream")
            # zlib decompressobj
            g = gzip_frame(x, pieces=3)
            do = zlib.decompressobj(31)
            got, buf, first = b"", g, True
            while first or do.unconsumed_tail:
                first = False
                c = do.decompress(buf, size)
                n += 1
                if len(c) > size:
                    bad(f"zlib decompress(max_length={size}) returned {len(c)} bytes")
                got += c
                if len(c) < size:
                    if do.unconsumed_tail:
                        bad("zlib returned fewer than max_length bytes but kept unconsumed input")
                    if got != x:
                        bad(f"zlib returned fewer than max_length bytes with output still pending ({len(got)} of {len(x)})")
                buf = do.unconsumed_tail
            got += do.flush()
            if got != x:
                bad(f"zlib chunks + flush() gave {len(got)} of {len(x)} bytes")
            do = zlib.decompressobj(31)
            if do.decompress(g) + do.flush() != x:
                bad("zlib decompress(max_length=0) + flush() is not the whole stream")
            # flush() decodes unconsumed_tail without limit
            if len(x) > 10:
                do = zlib.decompressobj(31)
                head = do.decompress(g, 5)
                if head + do.flush() != x:
                    bad("zlib flush() did not decode the unconsumed tail completely")
    # a frame whose header lies about the size is rejected by the one-shot API
    for true_len, lie in ((100, 50), (100, 101), (5000, 4999), (70000, 65536)):
        f = bytearray(zstandard.ZstdCompressor().compress(rnd.randbytes(true_len)))
        fhd = f[4]
        fcs_code, single = fhd >> 6, (fhd >> 5) & 1
        off = 5 + (0 if single else 1)
        width = {0: 1 if single else 0, 1: 2, 2: 4, 3: 8}[fcs_code]
        val = lie - (256 if fcs_code == 1 else 0)
        n += 1
        if width == 0 or val < 0 or val >= 256**width:
            continue
        f[off : off + width] = val.to_bytes(width, "little")
        if zstandard.get_frame_parameters(bytes(f)).content_size != lie:
            bad("could not forge the header (test harness)")
            continue
        try:
            out = zstandard.ZstdDecompressor().decompress(bytes(f))
            bad(f"one-shot API returned {len(out)} bytes for a frame declaring {lie} (true {true_len})")
        except zstandard.ZstdError:
            pass
    return BoundedResult(n, fails)
