"""C12 Stream state tokens are unforgeable, identity-bound and opaque (DESIGN §5 C12).

Under contract: _compute_aad / _compute_call_aad, _read_segment, _seal/_open_cursor_token,
_seal/_open_call_token, _pack/_unpack_plaintext, _mint_cursor_token / _mint_call_token (seal sites),
_unpack_and_recover_state + _resolve_call_from_token (resolution order), crypto.seal_bytes/open_bytes
(envelope framing).  The AEAD primitive itself, base64, zstd and the clock are assumed contracts.
"""

from __future__ import annotations

import base64
import binascii
import hashlib
import inspect
import os
import secrets
import time as _time
from http import HTTPStatus

import z3
import zstandard

import vgi_rpc.http.server._app_stream as aps
import vgi_rpc.http.server._state_token as st
from pyvc import models
from pyvc.api import *  # noqa: F403
from pyvc.api import PyRaise, ReplayResult, unit
from pyvc.core import is_bytes_term
from vgi_rpc import crypto
from vgi_rpc.http._common import _RpcHttpError
from vgi_rpc.rpc import AuthContext

MANIFEST = {
    "level_text": "Deductive proof over the real token code, for every identity pair, key, presented token, authenticated plaintext, clock reading and TTL: the cursor and call AADs are injective functions of the caller identity (anonymous | (domain, principal), NUL-free domains) and never coincide with each other; every mint site seals under the minting identity's AAD, the server key and the minting time; the openers return exactly the slices of the authenticated plaintext (headers = segment lengths, segments tile it), never raise anything but HTTP 400 on it, and accept only within the TTL; the packers produce created_at | call_id | (len, segment)* and unpack inverts pack, and that tiling is unique, so opening a genuine token returns the sealed fields and the minting time; the token is exactly base64 of the AEAD envelope; in _unpack_and_recover_state / _run_stream_exchange_sync every cache lookup, call-token open, deserialisation, bind_call_state, rehydrate, process, on_cancel and producer turn is preceded by a successful open of the cursor token under the server key, the request's own AAD and the configured TTL, cache.put only after the call ids matched; every rejection is HTTP 400; end to end (real /init shell then real /exchange shell, idealised AEAD) minted tokens reach user code only for the minting identity. Tests tamper a handful of bytes and replay across one other principal; the proof quantifies over all of them.",
    "level_note": "Modulo the idealised AEAD contract (an envelope opens only under the normalised key and AAD it was sealed with; confidentiality assumed - the 'opaque' clause rests on it plus O9); base64/zstd round trips and totality, compare_digest == equality, injective UTF-8 encode and a whole-second clock are assumed. The envelope's version byte is NOT authenticated by the real crypto, so token-kind separation rests on the AADs (proved), not on versions; sticky-session tokens share key and AAD with cursor tokens and are separated only by that byte and payload framing (ASSUMPTIONS). The uniformity clause ('no detail distinguishing which check failed') is checked literally: on a tree whose 400 messages differ per check it is refuted (genuine finding, natively replayed; on the pinned tree the six witness classes cursor/call x malformed_base64/expired, call:failed_authentication and cross_stream are recorded as known findings because the repository's own tests pin the message texts).",
    "technique": "contract-based deductive verification: path-wise postconditions on the real functions, string lemmas (z3 seq, cvc5 --strings-exp), tiling lemma over uninterpreted slices, ghost trace of open/lookup/deserialise/hook events, idealised AEAD as handlers over ghost state",
    "design_ref": "DESIGN.md §5 C12",
}
EXPLANATION = MANIFEST["level_text"]
TRUSTED = [
    "pyvc VC generator, its string/bytes/struct encodings; z3 5.1.0 / cvc5 1.4.0",
    "AEAD (XChaCha20-Poly1305 via crypto._seal/_open): _open(body,key,aad,nonce) returns p iff body was produced by _seal(p,key,aad,nonce); otherwise SealError; ciphertext reveals nothing of p (assumed, not proved)",
    "base64: b64decode(b64encode(x)) = x; b64decode(validate=True) returns bytes or raises binascii.Error",
    "zstandard: decompress(compress(x)) = x; decompress returns at most max_output_size bytes or raises ZstdError",
    "hmac/secrets.compare_digest(a,b) <=> a == b; hashlib.sha256(...).digest() is a 32-byte function of its input; os.urandom(n) returns n bytes",
    "str.encode() (UTF-8) is injective and preserves the presence of NUL",
    "lemma instantiation: the tiling lemma L0b is proved over uninterpreted slice/len from instances of L0 (slice of a concatenation at a part boundary, proved for arbitrary strings) and the struct facts |le4(n)| = 4, unle4(le4(n)) = n; it is applied to str.substr/str.len by instantiation",
]
ASSUMPTIONS = [
    "time.time() is read at whole-second resolution (int(time.time()) is the modelled clock value)",
    "domains are NUL-free (the property's own restriction); without it the injectivity lemma is refuted (canary)",
    "the envelope's version byte is unauthenticated in crypto.seal_bytes (not part of the AAD): open_bytes succeeds for a re-labelled version byte; C12 therefore uses only key + AAD equality from the AEAD contract",
    "sticky-session tokens (_sticky._seal_session_token) are sealed with the same token key and the same _compute_aad(auth) as cursor tokens; a session token with its version byte rewritten passes the cursor AEAD check for the same identity and is rejected only by payload framing / call-id resolution; identity binding (L2) is unaffected; the TTL and framing clauses are proved for tokens minted by _seal_cursor_token/_seal_call_token",
    "_open_call_token on an authenticated plaintext whose type / stream-id segments are not UTF-8 raises UnicodeDecodeError (not 400); unreachable for tokens minted by _seal_call_token (both segments are str.encode() results)",
    "seal-time preconditions: call_id is 16 bytes, created_at in [0, 2^64), every segment < 2^32 bytes, framed plaintext <= 64 MiB (larger compressible payloads would fail to re-open: availability, not security)",
    "user hooks (bind_call_state, rehydrate, deserialisers, schema readers, process, on_cancel) are arbitrary: return or raise any Exception",
    "uniformity is stated per class on a concrete representative run through the real code (failed AEAD authentication, non-base64 token, genuine token past its TTL, cross-stream pair) plus, for every symbolic rejection path, equality of its detail with its class representative",
    "a site whose signature grows is called with the extra required parameters universally quantified, and AAD expectations pass same-named extras (e.g. method_name) to the AAD functions",
]

NUL = z3.StringVal("\x00")
STR = z3.StringSort()
U64 = 2**64
U32 = 2**32
MAXP = st._MAX_TOKEN_PLAINTEXT_BYTES


def B(t):
    return SBytes(t)


def sub(t, lo, n):
    return z3.SubString(t, _t(lo), _t(n))


def _t(x):
    return x.t if isinstance(x, SInt) else (z3.IntVal(x) if isinstance(x, int) else x)


# ------------------------------------------------------------------------------------------
# identities (from the property statement): anonymous | (domain-or-"", principal-or-"")
# ------------------------------------------------------------------------------------------

AUTH_SHAPES = ["none", "unauth", "dp", "d-", "-p", "--"]


def mk_auth(S, tag, shape):
    """A symbolic AuthContext of the given shape and its identity (kind, domain, principal)."""
    S.inputs[f"shape{tag}"] = shape
    if shape == "none":
        return None, ("anon", "", "")
    d = S.str(f"domain{tag}") if shape[0] == "d" or shape == "unauth" else None
    p = S.str(f"principal{tag}") if shape[1] == "p" or shape == "unauth" else None
    if shape == "unauth":
        return SObj(AuthContext, domain=d, authenticated=False, principal=p), ("anon", "", "")
    return SObj(AuthContext, domain=d, authenticated=True, principal=p), ("auth", d if d is not None else "", p if p is not None else "")


def same_identity(i, j):
    if i[0] != j[0]:
        return False
    if i[0] == "anon":
        return True
    return And(eq(i[1], j[1]), eq(i[2], j[2]))


def nul_free(x):
    return True if isinstance(x, str) and "\x00" not in x else Not(SBool(z3.Contains(strterm(x), NUL)))


def native_auth(shape, d, p):
    if shape == "none":
        return None
    if shape == "unauth":
        return AuthContext(domain=d, authenticated=False, principal=p)
    return AuthContext(domain=d if shape[0] == "d" else None, authenticated=True, principal=p if shape[1] == "p" else None)


def native_identity(a):
    if a is None or not a.authenticated:
        return ("anon",)
    return ("auth", a.domain or "", a.principal or "")


def invoke(S, fn, *args, **kw):
    """Call the real function; any *additional required* parameter it has on this tree (beyond what the
    contract knows) is universally quantified (a fresh symbolic string), so the contract stays meaningful
    when a signature grows.  The extra arguments are returned in ``outcome.extras``."""
    sig = inspect.signature(fn)
    extra = {}
    for i, (n, p) in enumerate(sig.parameters.items()):
        if i < len(args) or n in kw or p.default is not inspect.Parameter.empty or p.kind in (p.VAR_POSITIONAL, p.VAR_KEYWORD):
            continue
        extra[n] = S.str(f"{fn.__name__}.{n}")
    out = S.outcome(fn, *args, **kw, **extra)
    out.extras = extra
    return out


def aad_for(S, fn, auth, extras):
    """The AAD function applied to ``auth`` and to the same-named extra arguments of the site under test (a site
    that binds more context, e.g. its method name, into the AAD is compared with the AAD for that same context)."""
    params = inspect.signature(fn).parameters
    return S.outcome(fn, auth, **{n: v for n, v in extras.items() if n in params})


def native_invoke(fn, *args, **kw):
    sig = inspect.signature(fn)
    for i, (n, p) in enumerate(sig.parameters.items()):
        if i < len(args) or n in kw or p.default is not inspect.Parameter.empty or p.kind in (p.VAR_POSITIONAL, p.VAR_KEYWORD):
            continue
        kw[n] = "m"
    return fn(*args, **kw)


def replay_aad(inputs, ob):
    a1 = native_auth(inputs["shape1"], inputs.get("domain1"), inputs.get("principal1"))
    a2 = native_auth(inputs["shape2"], inputs.get("domain2"), inputs.get("principal2"))
    for a in (a1, a2):
        if a is not None and a.authenticated and "\x00" in (a.domain or ""):
            return ReplayResult(False, "model domain contains NUL (outside the property's quantifier)")
    i1, i2 = native_identity(a1), native_identity(a2)
    cur1, cur2 = native_invoke(st._compute_aad, a1), native_invoke(st._compute_aad, a2)
    cal1, cal2 = native_invoke(st._compute_call_aad, a1), native_invoke(st._compute_call_aad, a2)
    problems = []
    if i1 != i2 and cur1 == cur2:
        problems.append(f"cursor AAD collides: {cur1!r}")
    if i1 != i2 and cal1 == cal2:
        problems.append(f"call AAD collides: {cal1!r}")
    if cur1 == cal2 or cur2 == cal1:
        problems.append(f"cursor AAD equals a call AAD: {cur1!r}")
    return ReplayResult(bool(problems), f"identities {i1} / {i2}: " + "; ".join(problems))


def search_aad(ob, seed):
    """Native hunt over identity pairs whose concatenations coincide."""
    vals = [None, "", "a", "b", "ab", "a\x00b", "\x00", "anonymous", "\x00anonymous", "\x01"]
    doms = [v for v in vals if v is None or "\x00" not in v]
    shapes = [("none", None, None), ("unauth", "a", "b")] + [("dp", d, p) for d in doms for p in vals]
    for s1, d1, p1 in shapes:
        for s2, d2, p2 in shapes:
            inputs = {"shape1": s1, "domain1": d1, "principal1": p1, "shape2": s2, "domain2": d2, "principal2": p2}
            rr = replay_aad(inputs, ob)
            if rr.confirmed:
                return inputs, rr
    return None


def aad_unit(which):
    """which: 'cursor' / 'call' (L2 injectivity of one AAD function) or 'cross' (L3 cursor vs call).  One function pair
    per unit keeps each lemma's context to the facts of two encode() calls (the string solvers are sensitive to it)."""

    def run(S):
        S.prune_lia = True
        # identity 1 = the identity a token was minted for, identity 2 = the requester's
        s1 = AUTH_SHAPES[S.choose(len(AUTH_SHAPES))]
        s2 = AUTH_SHAPES[S.choose(len(AUTH_SHAPES))]
        a1, i1 = mk_auth(S, "1", s1)
        a2, i2 = mk_auth(S, "2", s2)
        f1 = st._compute_call_aad if which == "call" else st._compute_aad
        f2 = st._compute_aad if which == "cursor" else st._compute_call_aad
        x1, x2 = invoke(S, f1, a1).value, invoke(S, f2, a2).value
        if which == "cross":
            S.oblige("L3.cursor_aad_differs_from_call_aad", Not(eq(x1, x2)), kind="lemma")
            S.canary("L3.canary.cursor_aad_differs_from_cursor_aad", Not(eq(x1, invoke(S, st._compute_aad, a2).value)))
            return
        if which == "cursor":
            S.canary("L2.canary.injective_without_nul_free_domains", Implies(eq(x1, x2), same_identity(i1, i2)))
        S.assume(And(nul_free(i1[1]), nul_free(i2[1])))  # the property's quantifier: domains are NUL-free
        S.oblige(f"L2.{which}_aad_injective", Implies(eq(x1, x2), same_identity(i1, i2)), kind="lemma")

    return run


for _which, _title in (("cursor", "L2 cursor AAD is injective in the identity"), ("call", "L2 call AAD is injective in the identity"), ("cross", "L3 cursor and call AADs never coincide")):
    unit(
        f"C12.{_title} (=> L8: a token that opens was minted for the same identity and is of the same kind)",
        targets=["vgi_rpc/http/server/_state_token.py::_compute_aad", "vgi_rpc/http/server/_state_token.py::_compute_call_aad"],
        replay=replay_aad,
        search=search_aad,
        min_obligations=30,
    )(aad_unit(_which))


# ------------------------------------------------------------------------------------------
# assumed library contracts used by the token functions (TRUSTED)
# ------------------------------------------------------------------------------------------

B64E = z3.Function("b64encode", STR, STR)
B64D = z3.Function("b64decode", STR, STR)
B64V = z3.Function("b64valid", STR, z3.BoolSort())
ZD = z3.Function("zstd_decompress", STR, STR)
ZOK = z3.Function("zstd_frame_ok", STR, z3.BoolSort())


def install_codecs(S):
    """base64 and zstd by their (assumed) library contracts: decode(encode(x)) = x, decoders total
    (value or the library's error), decompress honours max_output_size."""

    def b64encode(S, data):
        if isinstance(data, bytes):
            return base64.b64encode(data)
        r = B64E(bytesterm(data))
        S.assume(And(SBool(is_bytes_term(r)), SBool(B64V(r)), SBool(B64D(r) == bytesterm(data))))
        return SBytes(r)

    def b64decode(S, tok, validate=False):
        if isinstance(tok, bytes):
            try:
                return base64.b64decode(tok, validate=validate)
            except Exception as e:
                S.event("b64_invalid")
                raise PyRaise(e) from None
        t = bytesterm(tok)
        if not S.fork(SBool(B64V(t))):
            S.event("b64_invalid")
            raise PyRaise(SExc(binascii.Error, ("Invalid base64-encoded string",)))
        r = B64D(t)
        S.assume(SBool(is_bytes_term(r)))
        return SBytes(r)

    S.handlers[base64.b64encode] = b64encode
    S.handlers[base64.b64decode] = b64decode

    def compress(S, c, data):
        r = SBytes(z3.String(S.fresh_name("zstd_out")))
        S.assume(And(SBool(is_bytes_term(r.t)), SBool(ZOK(r.t)), SBool(ZD(r.t) == bytesterm(data))))
        return r

    def decompress(S, d, data, max_output_size=0):
        t = bytesterm(data)
        r = ZD(t)
        S.assume(SBool(is_bytes_term(r)))
        ok = And(SBool(ZOK(t)), Or(max_output_size == 0, SBool(z3.Length(r) <= max_output_size)))
        if not S.fork(ok):
            raise PyRaise(SExc(zstandard.ZstdError, ("decompression error",)))
        S.ghost["decompressed"] = SBytes(r)
        return SBytes(r)

    S.handlers["_compressor"] = lambda S: SObj(None, kind="ZstdC")
    S.handlers["_decompressor"] = lambda S: SObj(None, kind="ZstdD")
    S.handlers["ZstdC.compress"] = compress
    S.handlers["ZstdD.decompress"] = decompress
    S.inline.update({"_pack_plaintext", "_unpack_plaintext", "_read_segment"})


def rpc_400(message):
    cause = SExc(RuntimeError, (message,))
    return SExc(_RpcHttpError, (cause,), attrs={"cause": cause, "status_code": HTTPStatus.BAD_REQUEST})


def install_read_segment_contract(S):
    """_read_segment by its contract (proved in O4a): for pos >= 0 either HTTP 400, or the segment whose
    uint32-LE header sits at pos: seg = data[pos+4 : pos+4+n], n = header value, end = pos+4+n <= len(data)."""
    S.inline.discard("_read_segment")

    def read_segment(S, data, pos, message):
        S.oblige("O4a.pre.read_segment_called_with_nonnegative_offset", pos >= 0 if isinstance(pos, SInt) else pos >= 0, kind="pre")
        pos = pos if isinstance(pos, SInt) else SInt(z3.IntVal(pos))
        n = data.length()
        ln = SInt(z3.Int(S.fresh_name("seg_len")))
        S.assume(And(ln >= 0, ln < U32))
        if not S.fork(And(pos + 4 <= n, pos + 4 + ln <= n, ln == SInt(models._UNLE[4](sub(data.t, pos, 4))))):
            # (an offset whose header does not lie inside the data, or whose announced length overruns it)
            S.assume(Or(pos + 4 > n, And(ln == SInt(models._UNLE[4](sub(data.t, pos, 4))), pos + 4 + ln > n)))
            raise PyRaise(rpc_400(message))
        seg = SBytes(z3.String(S.fresh_name("seg")))
        S.assume(And(SBool(is_bytes_term(seg.t)), seg.length() == ln, eq(seg, B(sub(data.t, pos + 4, ln)))))
        return (seg, pos + 4 + ln)

    S.handlers["_read_segment"] = read_segment


def install_clock(S):
    now = S.int("now")
    S.assume(now >= 0)

    def clock(S):
        S.event("clock_read")
        return now

    S.handlers[_time.time] = clock
    return now


def is_400(e):
    return exc_is(e, _RpcHttpError) and e.attrs.get("status_code") is HTTPStatus.BAD_REQUEST


def detail(e):
    """What reaches the client from a rejection (_set_error_response(e.cause, status_code)): status, class and args of the cause."""
    c = e.attrs.get("cause") if isinstance(e, SExc) else None
    return (e.attrs.get("status_code") if isinstance(e, SExc) else None, exc_class(c) if c is not None else None, tuple(c.args) if isinstance(c, SExc) else None)


def same_detail(d1, d2):
    if d1[0] is not d2[0] or d1[1] is not d2[1] or d1[2] is None or d2[2] is None or len(d1[2]) != len(d2[2]):
        return False
    return And(*[eq(x, y) for x, y in zip(d1[2], d2[2])])


def reference_rejection(S):
    """The rejection the real _open_cursor_token gives for a well-formed envelope that fails AEAD
    authentication (tampered / foreign key / other identity): the reference all other token rejections
    must be indistinguishable from."""
    saved = dict(S.handlers)

    def refuse(S, token, key, *, aad, version=1):
        raise PyRaise(SExc(crypto.SealError, ("token verification failed",)))

    S.handlers[crypto.open_bytes] = refuse
    out = S.outcome(st._open_cursor_token, base64.b64encode(b"\x05" + bytes(48)), bytes(32), b"aad", 0)
    S.handlers = saved
    S.trace.clear()
    if not (out.raised and isinstance(out.exc, SExc)):
        return (None, None, None)
    return detail(out.exc)


CLASSES = ("failed_authentication", "malformed_base64", "expired")


def genuine_payload(kind, created=0):
    import struct

    return b"\x00" + struct.pack("<Q", created) + bytes(16) + struct.pack("<I", 0) * KINDS[kind]["nseg"]


def class_details(S, kind):
    """What the real opener answers, class by class, on one concrete representative of each class named in the
    property: a well-formed envelope that fails AEAD authentication (tampered / foreign key / other identity /
    swapped kind), a token that is not base64 (re-encoded / truncated), a genuine token past its TTL.  Run through
    the real code (concrete values), so the obligations built from them have a trivial path condition."""
    saved, saved_inline = dict(S.handlers), set(S.inline)
    S.inline.add("_read_segment")
    S.handlers.pop("_read_segment", None)

    def refuse(S, token, key, *, aad, version=1):
        raise PyRaise(SExc(crypto.SealError, ("token verification failed",)))

    def run(token, aead, now=0, ttl=0):
        S.handlers[crypto.open_bytes] = aead
        S.handlers[_time.time] = lambda S: now
        o = S.outcome(KINDS[kind]["open"], token, bytes(32), b"aad", ttl)
        return detail(o.exc) if o.raised and isinstance(o.exc, SExc) else ("accepted", None, None)

    out = {
        "failed_authentication": run(base64.b64encode(b"\x05" + bytes(48)), refuse),
        "malformed_base64": run(b"!!!not-base64!!!", refuse),
        "expired": run(base64.b64encode(b"genuine"), lambda S, raw, k, *, aad, version=1: genuine_payload(kind), now=10**9, ttl=1),
    }
    S.handlers, S.inline = saved, saved_inline
    S.trace.clear()
    return out


def oblige_uniform(S, kind, D, ref):
    """The property's 'no detail distinguishing which check failed', literally: every class answers what a failed
    authentication of the cursor token answers."""
    for cls in CLASSES:
        S.inputs["scenario"] = f"{kind}:{cls}"
        S.cur_site = f"{KINDS[kind]['open'].__name__}: rejection of a {cls.replace('_', ' ')} token"
        S.oblige(f"O7.uniform.{cls}_indistinguishable_from_a_failed_cursor_authentication", same_detail(D[cls], ref), kind="post", witness=f"{kind}:{cls}")
    S.inputs.pop("scenario", None)


def py_scenario(kind, cls):
    """Native counterpart of class_details: real tokens, real crypto."""
    key, aad, call_id = bytes(32), b"aad", bytes(16)
    now, ttl = 10**9, (1 if cls == "expired" else 0)
    if kind == "cursor":
        tok = st._seal_cursor_token(b"state", call_id, key, aad, 0)
    else:
        tok = st._seal_call_token(b"cs", "T", b"sch", b"in", call_id, "sid", key, aad, 0)
    if cls == "failed_authentication":
        raw = bytearray(base64.b64decode(tok))
        raw[-1] ^= 1
        tok = base64.b64encode(bytes(raw))
    elif cls == "malformed_base64":
        tok = b"!!!not-base64!!!"
    with patched_clock(now):
        try:
            KINDS[kind]["open"](tok, key, aad, ttl)
        except Exception as e:
            return py_detail(e)
    return ("accepted", None, None)


def replay_scenario(inputs):
    sc = inputs.get("scenario")
    if not sc:
        return None
    kind, cls = sc.split(":")
    got, ref = py_scenario(kind, cls), py_scenario("cursor", "failed_authentication")
    return ReplayResult(got != ref, f"{kind} token, class {cls}: the client sees {got}; a cursor token failing authentication gives {ref}")


def py_400(e):
    return isinstance(e, _RpcHttpError) and e.status_code == HTTPStatus.BAD_REQUEST


def py_detail(e):
    return (getattr(e, "status_code", None), type(getattr(e, "cause", None)), str(getattr(e, "cause", None)))


def py_reference():
    try:
        st._open_cursor_token(base64.b64encode(b"\x05" + bytes(48)), bytes(32), b"aad", 0)
    except Exception as e:
        return py_detail(e)
    return None


class patched_clock:
    def __init__(self, now):
        self.now = now

    def __enter__(self):
        self.saved = st.time.time
        st.time = type("T", (), {"time": staticmethod(lambda: float(self.now))})
        return self

    def __exit__(self, *a):
        import time

        st.time = time


# ------------------------------------------------------------------------------------------
# O4a framing: _read_segment
# ------------------------------------------------------------------------------------------


def replay_read_segment(inputs, ob):
    import struct

    data, pos = inputs["data"], inputs["pos"]
    try:
        seg, end = st._read_segment(data, pos, "m")
    except Exception as e:
        return ReplayResult(not py_400(e), f"_read_segment({data!r}, {pos}) raised {type(e).__name__}: {e}")
    bad = end > len(data) or end != pos + 4 + len(seg) or data[pos + 4 : end] != seg or struct.unpack_from("<I", data, pos)[0] != len(seg)
    return ReplayResult(bad, f"_read_segment({data!r}, {pos}) -> ({seg!r}, {end})")


def search_read_segment(ob, seed):
    import struct

    for n in (0, 1, 2, 3, 5, 2**32 - 1):
        for body in (b"", b"ab", b"abcde"):
            for cut in (0, 1, 3, 4, 5):
                data = (struct.pack("<I", n) + body)[: 4 + len(body) - cut] if cut else struct.pack("<I", n) + body
                for pos in (0, 1, 4):
                    inputs = {"data": b"\x00" * pos + data, "pos": pos}
                    rr = replay_read_segment(inputs, ob)
                    if rr.confirmed:
                        return inputs, rr
    return None


@unit("C12.O4a _read_segment is total and bounded", targets=["vgi_rpc/http/server/_state_token.py::_read_segment"], replay=replay_read_segment, search=search_read_segment, min_obligations=5)
def read_segment(S):
    data, pos = S.bytes("data"), S.int("pos")
    S.assume(pos >= 0)  # call sites: 24, or the end offset of the previous segment
    out = S.outcome(st._read_segment, data, pos, "m")
    n = data.length()
    if out.raised:
        S.oblige("O4a.rejects_only_with_400", is_400(out.exc), kind="raises")
        S.canary("O4a.canary.rejects_only_short_headers", pos + 4 > n)
        return
    seg, end = out.value
    ln = SInt(models._UNLE[4](sub(data.t, pos, 4)))
    S.oblige("O4a.header_inside_data", pos + 4 <= n)
    S.oblige("O4a.segment_inside_data", And(end <= n, end == pos + 4 + seg.length()))
    S.oblige("O4a.segment_is_the_announced_slice", And(seg.length() == ln, eq(seg, B(sub(data.t, pos + 4, ln)))))
    S.oblige("O4a.data_is_prefix_header_segment_rest", eq(data, B(z3.Concat(sub(data.t, 0, pos), models._LE[4](ln.t), seg.t, sub(data.t, end, n - end)))))


# ------------------------------------------------------------------------------------------
# token open on an arbitrary presented token (cursor and call): totality, re-encoding, TTL, 400, uniformity
# ------------------------------------------------------------------------------------------

KINDS = {
    "cursor": dict(open=st._open_cursor_token, seal=st._seal_cursor_token, nseg=1, version="_CURSOR_TOKEN_VERSION"),
    "call": dict(open=st._open_call_token, seal=st._seal_call_token, nseg=5, version="_CALL_TOKEN_VERSION"),
}


def native_token(kind, payload, key, aad):
    return base64.b64encode(crypto.seal_bytes(payload, key, aad=aad, version=getattr(st, KINDS[kind]["version"])))


def native_plain(payload):
    return st._unpack_plaintext(payload)


def judge_open(kind, token, key, aad, ttl, now, expect_plain=None):
    """Run the real opener natively and judge totality / re-encoding / TTL / 400 / uniformity."""
    import struct

    with patched_clock(now):
        try:
            r = KINDS[kind]["open"](token, key, aad, ttl)
        except Exception as e:
            if not py_400(e):
                return True, f"raised {type(e).__name__}: {e} (not the module's HTTP 400)", e
            return False, f"rejected: {py_detail(e)}", e
    if expect_plain is None:
        return False, f"accepted -> {r!r}", None
    plain = expect_plain
    created = struct.unpack_from("<Q", plain, 0)[0]
    if kind == "cursor":
        state, call_id = r
        enc = plain[:8] + call_id + struct.pack("<I", len(state)) + state
    else:
        cs, ty, sch, isch, call_id, sid = r
        enc = plain[:8] + call_id
        for seg in (cs, ty.encode(), sch, isch, sid.encode()):
            enc += struct.pack("<I", len(seg)) + seg
    problems = []
    if enc != plain or len(call_id) != 16:
        problems.append(f"fields {r!r} do not re-encode to the plaintext {plain!r}")
    if ttl > 0 and now - created > ttl:
        problems.append(f"accepted with age {now - created} > ttl {ttl}")
    return bool(problems), f"accepted -> {r!r}; " + "; ".join(problems), None


def replay_open_any(kind):
    def replay(inputs, ob):
        rr = replay_scenario(inputs)
        if rr is not None:
            return rr
        key, aad, ttl, now = inputs["key"], inputs["aad"], inputs["ttl"], inputs["now"]
        mode = inputs.get("aead", "accepts")
        if inputs.get("b64") == "invalid":
            bad, msg, e = judge_open(kind, b"!!!not-base64!!!", key, aad, ttl, now)
            return ReplayResult(bad, msg)
        payload = inputs.get("plaintext", b"")
        tok = native_token(kind, payload, key, aad)
        if mode == "rejects":
            raw = bytearray(base64.b64decode(tok))
            raw[-1] ^= 1
            bad, msg, e = judge_open(kind, base64.b64encode(bytes(raw)), key, aad, ttl, now)
            return ReplayResult(bad or e is None, msg)
        try:
            plain = native_plain(payload)
        except Exception as e:
            plain = None
            if not py_400(e):
                return ReplayResult(True, f"_unpack_plaintext({payload!r}) raised {type(e).__name__}")
        bad, msg, e = judge_open(kind, tok, key, aad, ttl, now, expect_plain=plain)
        if isinstance(e, UnicodeDecodeError):
            return ReplayResult(False, "non-UTF-8 text segment (outside the seal image, see ASSUMPTIONS)")
        return ReplayResult(bad, f"{kind} payload={payload!r} ttl={ttl} now={now}: {msg}")

    return replay


def unpacked(S, p):
    """The framed plaintext the opener parsed: p[1:] for the raw codec tag, the decompressed body otherwise."""
    return S.ghost.get("decompressed", B(sub(p.t, 1, z3.Length(p.t) - 1)))


def reencode(plain, call_id, segs):
    parts = [sub(plain.t, 0, 8), call_id.t]
    for s in segs:
        parts += [models._LE[4](z3.Length(s.t)), s.t]
    return B(z3.Concat(*parts))


def created_of(plain):
    return SInt(models._UNLE[8](sub(plain.t, 0, 8)))


def open_any(kind):
    K = KINDS[kind]

    def run(S):
        S.prune_lia = True  # byte-parsing code: reachability is decided by lengths (pyvc/prune.py)
        install_codecs(S)
        D = class_details(S, kind)
        ref = D["failed_authentication"] if kind == "cursor" else class_details(S, "cursor")["failed_authentication"]
        oblige_uniform(S, kind, D, ref)
        now = install_clock(S)
        if kind == "call":
            install_read_segment_contract(S)
        tok, key, aad, ttl = S.bytes("token"), S.bytes("key"), S.bytes("aad"), S.int("ttl")
        P = {}

        def aead_open(S, raw, k, *, aad, version=1):
            S.event("aead_open", raw, k, aad, version)
            if S.choose(2) == 1:
                S.inputs["aead"] = "rejects"
                raise PyRaise(SExc(crypto.SealError, ("token verification failed",)))
            S.inputs["aead"] = "accepts"
            P["p"] = S.bytes("plaintext")  # whatever some earlier seal under this key and AAD carried
            return P["p"]

        S.handlers[crypto.open_bytes] = aead_open
        out = S.outcome(K["open"], tok, key, aad, ttl)
        S.inputs["b64"] = "invalid" if S.events("b64_invalid") else "valid"
        for _, raw, k, a, v in S.events("aead_open"):
            S.oblige(f"O6.{kind}.aead_checks_the_presented_token_under_the_given_key_and_aad", And(eq(raw, B(B64D(tok.t))), k is key, a is aad), kind="pre")
        if out.raised:
            if kind == "call" and exc_is(out.exc, UnicodeDecodeError) and "p" in P:
                # an authenticated plaintext whose text segments are not UTF-8: outside the seal image of
                # _seal_call_token (both are str.encode() results; the round-trip unit proves genuine tokens never get here)
                S.note("call-token text segments that are not UTF-8 raise UnicodeDecodeError: outside the seal image (ASSUMPTIONS)")
                return
            S.oblige(f"O7.{kind}.rejects_only_with_http_400", is_400(out.exc), kind="raises")
            if not is_400(out.exc):
                return
            # every rejection of a class carries the detail of the class representative (so the concrete uniformity
            # obligations above speak for every token of the class)
            cls = None
            if S.events("b64_invalid"):
                S.canary(f"O7.{kind}.canary.base64_never_rejected", SBool(B64V(tok.t)))
                cls = "malformed_base64"
            elif "p" not in P:
                cls = "failed_authentication"
            elif S.events("clock_read"):
                cls = "expired"  # the clock is read only by the TTL check: a rejection after it is the expiry rejection
                S.oblige(f"O5.{kind}.rejected_after_the_clock_read_only_when_expired", And(ttl > 0, now - created_of(unpacked(S, P["p"])) > ttl))
            if cls is not None:
                S.oblige(f"O7.{kind}.rejection_detail_depends_only_on_the_failed_check", same_detail(detail(out.exc), D[cls]), kind="post", witness=f"{kind}:{cls}:path")
            return
        p = P.get("p")
        S.oblige(f"O6.{kind}.accepts_only_after_aead_open", p is not None, kind="trace")
        if p is None:
            return
        plain = unpacked(S, p)
        if kind == "cursor":
            state, call_id = out.value
            segs = [state]
        else:
            cs, ty, sch, isch, call_id, sid = out.value
            segs = [cs, B(models.UTF8_ENC(ty.t)), sch, isch, B(models.UTF8_ENC(sid.t))]
        # the returned fields are exactly the slices of the authenticated plaintext, each length header equals the
        # length of its segment, and the segments tile the plaintext (so re-encoding the fields gives the plaintext back)
        n = plain.length()
        S.oblige(f"O4.{kind}.call_id_is_plaintext_8_to_24", And(n >= 24, eq(call_id, B(sub(plain.t, 8, 16)))))
        pos = SInt(z3.IntVal(24))
        for j, seg in enumerate(segs):
            S.oblige(f"O4.{kind}.segment{j}_header_is_its_length", SInt(models._UNLE[4](sub(plain.t, pos, 4))) == seg.length())
            S.oblige(f"O4.{kind}.segment{j}_is_the_slice_after_its_header", eq(seg, B(sub(plain.t, pos + 4, seg.length()))))
            S.oblige(f"O4.{kind}.segment{j}_inside_the_plaintext", pos + 4 + seg.length() <= n)
            pos = pos + 4 + seg.length()
        S.oblige(f"O4.{kind}.segments_tile_the_plaintext", pos == n)
        S.oblige(f"O5.{kind}.accepted_only_within_ttl", Or(ttl <= 0, now - created_of(plain) <= ttl))

    return run


unit(
    "C12.O4b/O5/O7 _open_cursor_token on an arbitrary presented token",
    targets=["vgi_rpc/http/server/_state_token.py::_open_cursor_token", "vgi_rpc/http/server/_state_token.py::_unpack_plaintext"],
    replay=replay_open_any("cursor"),
    min_obligations=12,
)(open_any("cursor"))
unit(
    "C12.O4b/O5/O7 _open_call_token on an arbitrary presented token",
    targets=["vgi_rpc/http/server/_state_token.py::_open_call_token", "vgi_rpc/http/server/_state_token.py::_unpack_plaintext"],
    replay=replay_open_any("call"),
    min_obligations=12,
)(open_any("call"))


# ------------------------------------------------------------------------------------------
# seal -> open inverse on genuine tokens (O4c), expiry (O5), token = b64(envelope) (O9)
# ------------------------------------------------------------------------------------------


def seal_args(S, kind):
    call_id, key, aad, created = S.bytes("call_id"), S.bytes("key"), S.bytes("aad"), S.int("created_at")
    S.assume(And(call_id.length() == 16, created >= 0, created < U64))
    if kind == "cursor":
        state = S.bytes("state")
        S.assume(And(state.length() < U32, state.length() + 28 <= MAXP))
        return [state, call_id, key, aad, created], [state], call_id, key, aad, created
    cs, sch, isch = S.bytes("call_state"), S.bytes("schema"), S.bytes("input_schema")
    ty, sid = S.str("call_state_type"), S.str("stream_id")
    total = cs.length() + sch.length() + isch.length()
    enc_len = lambda s: SInt(z3.Length(models.UTF8_ENC(s.t)))  # noqa: E731
    S.assume(And(cs.length() < U32, sch.length() < U32, isch.length() < U32, enc_len(ty) < 4000, enc_len(sid) < 4000, total + 44 + 8000 <= MAXP))
    return [cs, ty, sch, isch, call_id, sid, key, aad, created], [cs, ty, sch, isch, sid], call_id, key, aad, created


def replay_roundtrip(kind):
    def replay(inputs, ob):
        key, aad, ttl, now, created = inputs["key"], inputs["aad"], inputs["ttl"], inputs["now"], inputs["created_at"]
        call_id = inputs["call_id"]
        if len(call_id) != 16 or not 0 <= created < U64:
            return ReplayResult(False, "model outside the seal preconditions")
        if kind == "cursor":
            args = [inputs["state"], call_id, key, aad, created]
            want = (inputs["state"], call_id)
        else:
            args = [inputs["call_state"], inputs["call_state_type"], inputs["schema"], inputs["input_schema"], call_id, inputs["stream_id"], key, aad, created]
            want = (inputs["call_state"], inputs["call_state_type"], inputs["schema"], inputs["input_schema"], call_id, inputs["stream_id"])
        try:
            tok = KINDS[kind]["seal"](*args)
        except UnicodeEncodeError:
            return ReplayResult(False, "model string not encodable (surrogates)")
        with patched_clock(now):
            try:
                got = KINDS[kind]["open"](tok, key, aad, ttl)
            except Exception as e:
                expired = ttl > 0 and now - created > ttl
                problems = []
                if not py_400(e):
                    problems.append(f"raised {type(e).__name__}")
                if not expired:
                    problems.append("genuine unexpired token rejected")
                return ReplayResult(bool(problems), f"{kind} created={created} now={now} ttl={ttl}: " + "; ".join(problems))
        problems = []
        if tuple(got) != want:
            problems.append(f"open(seal(x)) = {got!r} != {want!r}")
        if ttl > 0 and now - created > ttl:
            problems.append(f"accepted with age {now - created} > ttl {ttl}")
        return ReplayResult(bool(problems), f"{kind} created={created} now={now} ttl={ttl}: " + "; ".join(problems))

    return replay


def roundtrip(kind):
    """Seal side + composition.  (B) the real _seal_*_token frames  created_at | call_id | (len, segment)*  and
    packs / seals / base64s exactly that; unpack inverts pack.  (A) is the opener's contract proved in the
    'arbitrary presented token' unit for every authenticated plaintext: the returned fields tile the
    plaintext with consistent headers.  (C) tiling is unique, proved here segment by segment (S.lemma),
    so opening a genuine token returns exactly the sealed fields and the minting time."""
    K = KINDS[kind]

    def run(S):
        S.prune_lia = True  # byte-parsing code: reachability is decided by lengths (pyvc/prune.py)
        install_codecs(S)
        args, fields, call_id, key, aad, created = seal_args(S, kind)
        G = {}

        def aead_seal(S, payload, k, *, aad, version=1):
            G.update(payload=payload, key=k, aad=aad, version=version, raw=S.bytes("envelope"))
            S.event("aead_seal")
            return G["raw"]

        def pack(S, plaintext):
            G["plain"] = plaintext
            return S.call(st._pack_plaintext, plaintext)

        S.handlers[crypto.seal_bytes] = aead_seal
        S.handlers["_pack_plaintext"] = pack
        S.inline.discard("_pack_plaintext")
        sealed = S.outcome(K["seal"], *args)
        S.oblige(f"O4c.{kind}.seal_total_under_its_preconditions", sealed.returned and len(S.events("aead_seal")) == 1 and "plain" in G, kind="raises")
        if not (sealed.returned and "raw" in G and "plain" in G):
            return
        tok, plain = sealed.value, G["plain"]
        S.oblige(f"O9.{kind}.token_is_base64_of_the_aead_envelope_only", eq(tok, B(B64E(G["raw"].t))))
        S.oblige(f"O2.{kind}.seal_uses_the_given_key_and_aad", And(G["key"] is key, G["aad"] is aad), kind="pre")
        segs = [f if isinstance(f, SBytes) else B(models.UTF8_ENC(f.t)) for f in fields]
        layout = [models._LE[8](created.t), call_id.t]
        for sg in segs:
            layout += [models._LE[4](z3.Length(sg.t)), sg.t]
        S.oblige(f"O4c.{kind}.plaintext_is_created_callid_then_length_prefixed_segments", eq(plain, B(z3.Concat(*layout))))
        # (C) uniqueness of the tiling (unit L0b, on exactly this layout shape) then gives: opening returns the sealed fields
        n = plain.length()
        S.oblige(f"O4c.{kind}.layout_has_one_segment_per_field", len(segs) == K["nseg"], kind="post")

    return run


@unit("C12.L0 slice of a concatenation at a part boundary (string lemma used by O4c)", targets=["vgi_rpc/http/server/_state_token.py::_seal_call_token"], min_obligations=1)
def slice_of_concat(S):
    a, b, c = z3.String("A"), z3.String("B"), z3.String("C")
    S.oblige("L0.slice_of_concat", SBool(sub(z3.Concat(a, b, c), z3.Length(a), z3.Length(b)) == b), kind="lemma")
    v, nn, bd = z3.String("V"), z3.String("N"), z3.String("Bd")
    env = z3.Concat(v, nn, bd)
    hyp = z3.And(z3.Length(v) == 1, z3.Length(nn) == 24)
    for nm, goal in (("nonce", sub(env, 1, 24) == nn), ("body", sub(env, 25, z3.Length(env) - 25) == bd), ("version", sub(env, 0, 1) == v)):
        S.oblige(f"L0.opener_slice_of_an_envelope_is_its_{nm}", SBool(z3.Implies(hyp, goal)), kind="lemma")
    S.canary("L0.canary.slice_ignores_its_offset", SBool(sub(z3.Concat(a, b, c), z3.Length(c), z3.Length(b)) == b))


BYTES = z3.DeclareSort("AbstractBytes")
SLICE = z3.Function("slice", BYTES, z3.IntSort(), z3.IntSort(), BYTES)
LEN = z3.Function("len", BYTES, z3.IntSort())
ALE4 = z3.Function("abs_le4", z3.IntSort(), BYTES)
AUNLE4 = z3.Function("abs_unle4", BYTES, z3.IntSort())
ALE8 = z3.Function("abs_le8", z3.IntSort(), BYTES)
AUNLE8 = z3.Function("abs_unle8", BYTES, z3.IntSort())


def tiling(k):
    """(C) uniqueness of the tiling.  The string solvers cannot chain "slice of a concatenation at a part
    boundary" through five symbolic offsets (100 s and no answer), so the argument is made once over
    *uninterpreted* slice/len (valid for every interpretation, in particular str.substr/str.len): the only
    facts used are the instances  slice(plain, |A|, |B|) = B  for plain = A ++ B ++ C  (lemma L0, proved for
    arbitrary strings) and the struct facts |le4(n)| = 4, unle4(le4(n)) = n.  If (c2, t0..) satisfy the
    opener's contract (A) on  plain = H(8) ++ C(16) ++ le4(|s0|) ++ s0 ++ ...  then c2 = C, t_j = s_j, and the
    created_at read back is the sealed one."""

    def run(S):
        plain, H, C, c2 = (z3.Const(nm, BYTES) for nm in ("plain", "H", "C", "c2"))
        created = S.int("created_at")
        ss = [z3.Const(f"s{j}", BYTES) for j in range(k)]
        Ls = [ALE4(LEN(x)) for x in ss]
        layout = [H, C]
        for x, L in zip(ss, Ls):
            layout += [L, x]
        S.assume(And(SBool(LEN(H) == 8), SBool(LEN(C) == 16), SBool(H == ALE8(created.t)), SBool(AUNLE8(H) == created.t)))
        for x, L in zip(ss, Ls):
            S.assume(And(SBool(LEN(x) >= 0), SBool(LEN(L) == 4), SBool(AUNLE4(L) == LEN(x))))
        start = SInt(z3.IntVal(0))
        for part in layout:  # instances of L0: the slice of plain = A ++ part ++ C' at |A| of length |part| is part
            S.assume(SBool(SLICE(plain, start.t, LEN(part)) == part))
            start = start + SInt(LEN(part))
        n = start  # |plain|
        S.assume(SBool(c2 == SLICE(plain, 8, 16)))
        S.oblige(f"L0b.{k}.opened_call_id_is_the_sealed_one", SBool(c2 == C), kind="lemma")
        S.oblige(f"L0b.{k}.opened_created_at_is_the_sealed_one", SBool(AUNLE8(SLICE(plain, 0, 8)) == created.t), kind="lemma")
        pos = SInt(z3.IntVal(24))
        for j in range(k):
            t = z3.Const(f"t{j}", BYTES)
            S.assume(And(SBool(AUNLE4(SLICE(plain, pos.t, 4)) == LEN(t)), SBool(t == SLICE(plain, (pos + 4).t, LEN(t)))))
            S.oblige(f"L0b.{k}.opened_segment{j}_is_the_sealed_one", SBool(t == ss[j]), kind="lemma")
            pos = pos + 4 + SInt(LEN(t))
        S.oblige(f"L0b.{k}.segments_tile_the_plaintext", pos == n, kind="lemma")
        S.canary(f"L0b.{k}.canary.first_segment_is_empty", SBool(LEN(ss[0]) == 0))

    return run


unit("C12.L0b tiling of a cursor plaintext (1 segment) is unique", targets=["vgi_rpc/http/server/_state_token.py::_open_cursor_token"], min_obligations=5)(tiling(1))
unit("C12.L0b tiling of a call plaintext (5 segments) is unique", targets=["vgi_rpc/http/server/_state_token.py::_open_call_token"], min_obligations=8)(tiling(5))


def replay_pack(inputs, ob):
    x = inputs["framed_plaintext"]
    try:
        y = st._unpack_plaintext(st._pack_plaintext(x))
    except Exception as e:
        return ReplayResult(True, f"_unpack_plaintext(_pack_plaintext({x!r})) raised {type(e).__name__}: {e}")
    return ReplayResult(y != x, f"_unpack_plaintext(_pack_plaintext({x!r})) = {y!r}")


@unit("C12.O4c _unpack_plaintext inverts _pack_plaintext", targets=["vgi_rpc/http/server/_state_token.py::_pack_plaintext", "vgi_rpc/http/server/_state_token.py::_unpack_plaintext"], replay=replay_pack, min_obligations=2)
def pack_unpack(S):
    install_codecs(S)
    x = S.bytes("framed_plaintext")
    S.assume(x.length() <= MAXP)
    packed = S.outcome(st._pack_plaintext, x)
    S.oblige("O4c.pack_is_total", packed.returned, kind="raises")
    if not packed.returned:
        return
    S.oblige("O4c.packed_payload_starts_with_a_codec_tag", packed.value.length() >= 1)
    un = S.outcome(st._unpack_plaintext, packed.value)
    S.oblige("O4c.unpack_inverts_pack", un.returned and eq(un.value, x))
    S.canary("O4c.canary.packing_never_compresses", eq(packed.value, B(z3.Concat(z3.StringVal("\x00"), x.t))))


unit(
    "C12.O4c/O2/O9 cursor token, seal side: plaintext layout, key and AAD passed through, token = b64(envelope)",
    targets=["vgi_rpc/http/server/_state_token.py::_seal_cursor_token", "vgi_rpc/http/server/_state_token.py::_open_cursor_token", "vgi_rpc/http/server/_state_token.py::_pack_plaintext"],
    replay=replay_roundtrip("cursor"),
    min_obligations=8,
)(roundtrip("cursor"))
unit(
    "C12.O4c/O2/O9 call token, seal side: plaintext layout, key and AAD passed through, token = b64(envelope)",
    targets=["vgi_rpc/http/server/_state_token.py::_seal_call_token", "vgi_rpc/http/server/_state_token.py::_open_call_token", "vgi_rpc/http/server/_state_token.py::_pack_plaintext"],
    replay=replay_roundtrip("call"),
    min_obligations=8,
)(roundtrip("call"))


# ------------------------------------------------------------------------------------------
# O2 seal sites: the mint functions bind the identity's AAD, the server key and the minting time
# ------------------------------------------------------------------------------------------


def install_seal_contracts(S):
    """_seal_cursor_token / _seal_call_token by contract: they seal exactly their arguments (units O4c)."""

    def seal_cursor(S, state_bytes, call_id, token_key, aad, created_at):
        tok = SBytes(z3.String(S.fresh_name("cursor_token")))
        S.event("seal_cursor", tok, state_bytes, call_id, token_key, aad, created_at)
        return tok

    def seal_call(S, cs_bytes, cs_type, schema_bytes, input_schema_bytes, call_id, stream_id, token_key, aad, created_at):
        tok = SBytes(z3.String(S.fresh_name("call_token")))
        S.event("seal_call", tok, cs_bytes, call_id, token_key, aad, created_at, stream_id)
        return tok

    S.handlers["_seal_cursor_token"] = seal_cursor
    S.handlers["_seal_call_token"] = seal_call
    S.inline.update({"_compute_aad", "_compute_call_aad"})


@unit(
    "C12.O2 mint sites seal under the minting identity's AAD, the given key and the current time",
    targets=["vgi_rpc/http/server/_state_token.py::_mint_cursor_token", "vgi_rpc/http/server/_state_token.py::_mint_call_token"],
    min_obligations=20,
)
def mint_sites(S):
    S.prune_lia = True
    install_seal_contracts(S)
    now = install_clock(S)
    shape = AUTH_SHAPES[S.choose(len(AUTH_SHAPES))]
    auth, ident = mk_auth(S, "1", shape)
    key = S.bytes("key")
    which = ["cursor", "call", "call_without_state"][S.choose(3)]
    S.handlers["_serialize_state_bytes"] = lambda S, state, info: S.bytes("state_bytes")
    S.handlers[os.urandom] = lambda S, k: _fresh_bytes(S, "random", k)
    S.handlers["Ser.serialize_to_bytes"] = lambda S, o: S.bytes("call_state_bytes")
    S.handlers["Schema.serialize"] = lambda S, o: SObj(None, kind="Buf")
    S.handlers["Buf.to_pybytes"] = lambda S, o: S.bytes("schema_bytes")
    if which == "cursor":
        call_id = S.bytes("call_id")
        out = invoke(S, st._mint_cursor_token, SObj(None, kind="State"), SObj(None, kind="Info"), call_id, key, auth)
        evs = S.events("seal_cursor")
        want_aad = aad_for(S, st._compute_aad, auth, out.extras).value
    else:
        cs = SObj(_CallStateStub) if which == "call" else None
        S.handlers["_CallStateStub.serialize_to_bytes"] = lambda S, o: S.bytes("call_state_bytes")
        out = invoke(S, st._mint_call_token, cs, SObj(None, kind="Schema"), SObj(None, kind="Schema"), key, auth, S.str("stream_id"))
        evs = S.events("seal_call")
        want_aad = aad_for(S, st._compute_call_aad, auth, out.extras).value
    S.oblige(f"O2.{which}.mint_seals_exactly_once", out.returned and len(evs) == 1, kind="trace")
    if not (out.returned and len(evs) == 1):
        return
    ev = evs[0]
    S.oblige(f"O2.{which}.sealed_under_the_server_key", ev[4] is key, kind="trace")
    S.oblige(f"O2.{which}.sealed_under_the_minting_identity_aad", eq(ev[5], want_aad))
    S.oblige(f"O2.{which}.created_at_is_the_minting_time", eq(ev[6], now))
    S.oblige(f"O2.{which}.mint_returns_the_sealed_token", out.value[0] is ev[1], kind="trace")
    if which != "cursor":
        S.oblige("O2.call.call_id_is_16_fresh_bytes_and_is_returned", And(ev[3].length() == 16, out.value[1] is ev[3]))
    S.canary(f"O2.{which}.canary.minted_at_the_epoch", eq(ev[6], 0))


class _CallStateStub:
    """Stands for a user call-state dataclass: only its class name and serialize_to_bytes are used."""

    def serialize_to_bytes(self):  # pragma: no cover - replaced by a handler
        raise NotImplementedError


def _fresh_bytes(S, name, k):
    b = SBytes(z3.String(S.fresh_name(name)))
    S.assume(And(SBool(is_bytes_term(b.t)), b.length() == k))
    return b


# ------------------------------------------------------------------------------------------
# O6 resolution order in _unpack_and_recover_state (+ _resolve_call_from_token), O7 every rejection is HTTP 400
# ------------------------------------------------------------------------------------------

import pyarrow as pa  # noqa: E402

from vgi_rpc.rpc._common import _current_stream_id  # noqa: E402

PROTECTED = ("cache.get", "cache.put", "open_call", "read_schema", "declared_types", "deserialize_call_state", "resolve_state_cls", "deserialize_state", "bind_call_state", "rehydrate")


def hook(S, name, *args, exc=RuntimeError):
    """A user hook / library call with arbitrary behaviour: records the event, then returns or raises."""
    S.event(name, *args)
    if S.choose(2) == 1:
        raise PyRaise(SExc(exc, (f"{name} failed",)))


def report_created_at(S, out_params, created_at):
    """Some trees let _open_call_token report the token's created_at through an out-parameter list."""
    out = out_params.get("created_at_out")
    if out is not None:
        out.append(created_at)


def install_token_openers(S, cursor_outcomes=("accept", "reject"), call_outcomes=("accept", "reject")):
    """_open_cursor_token / _open_call_token by contract (units O4b/O5/O7 + the assumed AEAD): HTTP 400, or the
    fields of a plaintext sealed under the same key and AAD (ghost witness recorded in the event)."""

    def open_cursor(S, token, token_key, aad, token_ttl=0):
        if cursor_outcomes[S.choose(len(cursor_outcomes))] == "reject":
            S.event("open_cursor_rejected", token, token_key, aad, token_ttl)
            raise PyRaise(rpc_400("token rejected"))
        state_bytes, call_id = S.bytes("state_bytes"), S.bytes("cursor_call_id")
        S.event("open_cursor_ok", token, token_key, aad, token_ttl, state_bytes, call_id)
        return (state_bytes, call_id)

    def open_call(S, token, token_key, aad, token_ttl=0, **out_params):
        S.event("open_call", token, token_key, aad, token_ttl)
        if call_outcomes[S.choose(len(call_outcomes))] == "reject":
            raise PyRaise(rpc_400("token rejected"))
        r = (S.bytes("call_state_bytes"), S.str("call_state_type"), S.bytes("schema_bytes"), S.bytes("input_schema_bytes"), S.bytes("token_call_id"), S.str("stream_id"))
        S.event("open_call_ok", token, token_key, aad, token_ttl, r)
        report_created_at(S, out_params, S.int("call_token_created_at"))
        return r

    S.handlers["_open_cursor_token"] = open_cursor
    S.handlers["_open_call_token"] = open_call
    S.inline.update({"_compute_aad", "_compute_call_aad"})


def mk_app(S):
    key, ttl = S.bytes("token_key"), S.int("token_ttl")
    impl = SObj(None, kind="Impl")
    server = SObj(None, kind="Server", ipc_validation=S.opaque("ipc_validation", "IpcValidation"), implementation=impl)
    cache = SObj(None, kind="Cache")
    app = SObj(None, kind="App", _token_key=key, _token_ttl=ttl, _call_state_cache=cache, _server=server)
    return app, key, ttl, impl


def cached_entry(S, method_name):
    return SObj(None, kind="Resolved", call_state=S.opaque("cached_call_state", "CallState"), output_schema=SObj(None, kind="Schema"), input_schema=SObj(None, kind="Schema"), stream_id=S.str("cached_stream_id"), created_at=None, method_name=method_name)


def install_recovery_world(S, cache_outcomes=("hit", "foreign", "miss"), request_method=None):
    """Everything _unpack_and_recover_state / _resolve_call_from_token touch besides the token openers.
    The cache answers: an entry recorded for the method of this request ("hit"), an entry recorded for another
    stream method ("foreign"; trees whose entries carry no method never look at the field), or nothing."""
    W = {}

    def cache_get(S, c, call_id, auth, now):
        S.event("cache.get", call_id, auth)
        outcome = cache_outcomes[S.choose(len(cache_outcomes))]
        S.inputs["cache"] = outcome
        if outcome == "hit":
            W["hit"] = cached_entry(S, request_method)
            return W["hit"]
        if outcome == "foreign":
            other = S.str("cached_entry_method")
            if request_method is not None:
                S.assume(Not(eq(other, request_method)))
            W["foreign"] = cached_entry(S, other)
            return W["foreign"]
        return None

    S.handlers["Cache.get"] = cache_get
    S.handlers["Cache.put"] = lambda S, c, call_id, auth, resolved, now: S.event("cache.put", call_id, auth, resolved)
    S.handlers[secrets.compare_digest] = lambda S, a, b: eq(a, b)
    S.handlers[pa.py_buffer] = lambda S, b: b

    def read_schema(S, buf):
        hook(S, "read_schema", buf, exc=pa.ArrowInvalid)
        return SObj(None, kind="Schema")

    S.handlers[pa.ipc.read_schema] = read_schema

    def declared(S, state_info):
        S.event("declared_types", state_info)
        return SObj(None, kind="TypeMap")

    def typemap_get(S, m, name):
        if S.choose(2) == 1:
            return None
        return SObj(None, kind="CallStateCls")

    def deser_call_state(S, cls, data, validation):
        hook(S, "deserialize_call_state", data)
        return S.opaque("call_state", "CallState")

    S.handlers["_declared_call_state_types"] = declared
    S.handlers["TypeMap.get"] = typemap_get
    S.handlers["CallStateCls.deserialize_from_bytes"] = deser_call_state
    S.inline.update({"_ResolvedCall", "_resolve_call_from_token"})
    S.handlers[_current_stream_id.set] = lambda S, v: None
    state_obj = SObj(None, kind="State")
    W["state"] = state_obj

    def resolve_state_cls(S, data, state_info):
        hook(S, "resolve_state_cls", data)
        return (SObj(None, kind="StateCls"), data)

    def deserialize_state(S, cls, raw, validation):
        hook(S, "deserialize_state", raw)
        return state_obj

    S.handlers["_resolve_state_cls"] = resolve_state_cls
    S.handlers["_deserialize_state_bytes"] = deserialize_state
    S.handlers["State.bind_call_state"] = lambda S, st_, cs: hook(S, "bind_call_state", cs)
    S.handlers["State.rehydrate"] = lambda S, st_, impl: hook(S, "rehydrate", impl)
    return W


def check_resolution_order(S, trace, app_key, app_ttl, auth, token, call_token, prefix="O6", extras=None):
    """Trace obligations shared by the O6 unit and C13's harness."""
    names = [e[0] for e in trace]
    opens = [i for i, n in enumerate(names) if n == "open_cursor_ok"]
    first_protected = next((i for i, n in enumerate(names) if n in PROTECTED), None)
    if first_protected is not None:
        S.oblige(f"{prefix}.cursor_token_opened_before_any_lookup_deserialisation_or_hook", bool(opens) and opens[0] < first_protected, kind="trace", witness=names[first_protected])
    want_aad = aad_for(S, st._compute_aad, auth, extras or {})
    want_call_aad = aad_for(S, st._compute_call_aad, auth, extras or {})
    for e in trace:
        if e[0] in ("open_cursor_ok", "open_cursor_rejected"):
            S.oblige(f"{prefix}.cursor_opened_under_the_server_key_the_requests_own_aad_and_the_ttl", And(e[1] is token, e[2] is app_key, eq(e[3], want_aad.value), e[4] is app_ttl), kind="trace")
        if e[0] == "open_call":
            S.oblige(f"{prefix}.call_token_opened_under_the_server_key_the_requests_own_call_aad_and_the_ttl", And(e[1] is call_token, e[2] is app_key, eq(e[3], want_call_aad.value), e[4] is app_ttl), kind="trace")
    ok = [e for e in trace if e[0] == "open_cursor_ok"]
    for e in trace:
        if e[0] in ("cache.get", "cache.put"):
            S.oblige(f"{prefix}.cache_is_keyed_by_the_authenticated_call_id_and_the_requests_identity", bool(ok) and e[1] is ok[0][6] and e[2] is auth, kind="trace")
    puts = [e for e in trace if e[0] == "cache.put"]
    call_ok = [e for e in trace if e[0] == "open_call_ok"]
    for e in puts:
        S.oblige(f"{prefix}.cache_put_only_after_the_call_token_opened", bool(call_ok) and names.index("open_call_ok") < names.index("cache.put"), kind="trace")
        if call_ok and ok:
            S.oblige(f"{prefix}.cache_put_only_when_the_call_ids_match", eq(call_ok[0][5][4], ok[0][6]))
    return ok, call_ok, puts


def native_aad(fn, auth, extras):
    params = inspect.signature(fn).parameters
    return fn(auth, **{n: v for n, v in extras.items() if n in params})


def replay_cross_stream(inputs, ob):
    """A genuine cursor token of one stream paired with the genuine call token of another (cold cache)."""
    from vgi_rpc.utils import IpcValidation

    key = bytes(32)
    extras = {"method_name": "m"}  # native_invoke passes "m" for any extra required parameter

    class Srv:
        ipc_validation = IpcValidation.NONE
        implementation = None

    class App:
        _token_key = key
        _token_ttl = 0
        _call_state_cache = st._CallStateCache()
        _server = Srv()

    cur = st._seal_cursor_token(b"state", b"A" * 16, key, native_aad(st._compute_aad, None, extras), 0)
    call = st._seal_call_token(b"", "", b"sch", b"in", b"B" * 16, "sid", key, native_aad(st._compute_call_aad, None, extras), 0)
    try:
        native_invoke(aps._unpack_and_recover_state, App(), cur, call, object, None)
    except Exception as e:
        got, ref = py_detail(e), py_scenario("cursor", "failed_authentication")
        return ReplayResult(got != ref, f"cursor token of stream A with the call token of stream B: the client sees {got}; a cursor token failing authentication gives {ref}")
    return ReplayResult(True, "a cross-stream token pair was accepted")


@unit(
    "C12.O6 resolution order in _unpack_and_recover_state; O7 every rejection is HTTP 400",
    targets=["vgi_rpc/http/server/_app_stream.py::_unpack_and_recover_state", "vgi_rpc/http/server/_app_stream.py::_resolve_call_from_token"],
    replay=replay_cross_stream,
    min_obligations=200,
    max_paths=3000,
)
def resolution_order(S):
    S.prune_lia = True
    install_codecs(S)
    ref = reference_rejection(S)
    install_clock(S)
    install_token_openers(S)
    W = install_recovery_world(S)
    app, key, ttl, impl = mk_app(S)
    shape = ["none", "unauth", "dp"][S.choose(3)]
    auth, ident = mk_auth(S, "1", shape)
    token = S.bytes("token")
    call_token = S.bytes("call_token") if S.choose(2) == 0 else None
    info = SObj(None, kind="StateInfo")
    out = invoke(S, aps._unpack_and_recover_state, app, token, call_token, info, auth)
    ok, call_ok, puts = check_resolution_order(S, S.trace, key, ttl, auth, token, call_token, extras=out.extras)
    names = [e[0] for e in S.trace]
    S.oblige("O6.cursor_token_is_always_examined_first", names[:1] in (["open_cursor_ok"], ["open_cursor_rejected"]), kind="trace")
    if out.raised:
        S.oblige("O7.every_rejection_is_http_400", is_400(out.exc), kind="raises")
        if not ok:
            S.oblige("O6.rejected_cursor_token_stops_everything", len(names) == 1, kind="trace")
        if is_400(out.exc) and call_ok and not puts and "read_schema" not in names:
            # the call token opened but its call id is not the cursor's: a cross-stream pair
            S.oblige("O7.uniform.cross_stream_pair_indistinguishable_from_failed_authentication", same_detail(detail(out.exc), ref), kind="post", witness="cross_stream")
        return
    state_obj, resolved, call_id, state_bytes = out.value
    S.oblige("O6.accepts_only_after_cursor_open", bool(ok), kind="trace")
    if not ok:
        return
    S.oblige("O6.returns_the_authenticated_call_id_and_state_bytes", call_id is ok[0][6] and state_bytes is ok[0][5], kind="trace")
    S.oblige("O6.state_is_deserialised_from_the_authenticated_bytes", any(e[0] == "deserialize_state" and e[1] is ok[0][5] for e in S.trace) and any(e[0] == "resolve_state_cls" and e[1] is ok[0][5] for e in S.trace), kind="trace")
    S.oblige("O6.an_entry_cached_for_another_method_is_never_served", resolved is not W.get("foreign", object()), kind="trace")
    if "hit" in W:
        S.oblige("O6.cache_hit_uses_the_cached_call_and_consults_no_call_token", resolved is W["hit"] and not call_ok and "open_call" not in names, kind="trace")
    else:
        S.oblige("O6.cache_miss_requires_an_opened_call_token", bool(call_ok) and len(puts) == 1 and puts[0][3] is resolved, kind="trace")
    S.oblige("O6.call_state_bound_is_the_resolved_one", any(e[0] == "bind_call_state" and e[1] is resolved.fields["call_state"] for e in S.trace), kind="trace")
    S.oblige("O6.hooks_run_in_order_bind_then_rehydrate", names.index("bind_call_state") < names.index("rehydrate") and any(e[0] == "rehydrate" and e[1] is impl for e in S.trace), kind="trace")
    S.canary("O6.canary.never_hits_the_cache", SBool(z3.BoolVal("hit" not in W)))


# ------------------------------------------------------------------------------------------
# O8 crypto.seal_bytes / open_bytes: envelope framing over the assumed AEAD primitive (_seal / _open)
# ------------------------------------------------------------------------------------------

SHA = z3.Function("sha256", STR, STR)


def nk_spec(key):
    """normalize_key from its docstring: a 32-byte key is used as is, any other length goes through SHA-256."""
    return B(z3.If(z3.Length(key.t) == 32, key.t, SHA(key.t)))


def replay_envelope(inputs, ob):
    p, k, a, v = inputs["payload"], inputs["key"], inputs["aad"], inputs["version"]
    try:
        tok = crypto.seal_bytes(p, k, aad=a, version=v)
    except ValueError:
        return ReplayResult(0 <= v <= 255, f"seal_bytes(version={v}) raised ValueError")
    k2, a2, v2 = inputs.get("key2", k), inputs.get("aad2", a), inputs.get("version2", v)
    same = crypto.normalize_key(k2) == crypto.normalize_key(k) and a2 == a and v2 == v
    try:
        got = crypto.open_bytes(tok, k2, aad=a2, version=v2)
    except crypto.SealError:
        return ReplayResult(same, "open_bytes rejected" + (" a token sealed with the same key, AAD and version" if same else " (expected)"))
    except Exception as e:
        return ReplayResult(True, f"open_bytes raised {type(e).__name__}: {e}")
    bad = got != p or not (crypto.normalize_key(k2) == crypto.normalize_key(k) and a2 == a)
    return ReplayResult(bad, f"open_bytes -> {got!r} (sealed {p!r}); same key/aad/version = {same}; note: version byte is not authenticated")


@unit(
    "C12.O8 crypto.seal_bytes/open_bytes envelope framing over the assumed AEAD primitive",
    targets=["vgi_rpc/crypto.py::seal_bytes", "vgi_rpc/crypto.py::open_bytes", "vgi_rpc/crypto.py::normalize_key"],
    replay=replay_envelope,
    min_obligations=10,
)
def envelope(S):
    S.prune_lia = True
    S.inline.add("normalize_key")
    S.handlers[hashlib.sha256] = lambda S, data: SObj(None, kind="Sha", data=data)

    def digest(S, h):
        r = SHA(h.fields["data"].t)
        S.assume(And(SBool(is_bytes_term(r)), SBool(z3.Length(r) == 32)))
        return B(r)

    S.handlers["Sha.digest"] = digest
    S.handlers[os.urandom] = lambda S, k: _fresh_bytes(S, "nonce", k)
    G = {}

    def aead_seal(S, payload, key, aad, nonce):
        body = SBytes(z3.String(S.fresh_name("ciphertext_and_tag")))
        S.assume(And(SBool(is_bytes_term(body.t)), body.length() == payload.length() + 16))
        G.update(payload=payload, key=key, aad=aad, nonce=nonce, body=body)
        return body

    def aead_open(S, body, key, aad, nonce):
        S.event("aead_open", body, key, aad, nonce)
        if G and S.fork(And(eq(body, G["body"]), eq(key, G["key"]), eq(aad, G["aad"]), eq(nonce, G["nonce"]))):
            return G["payload"]
        if not G and S.choose(2) == 1:
            return S.bytes("earlier_plaintext")  # sealed earlier under this key, AAD and nonce
        raise PyRaise(SExc(crypto.SealError, ("token verification failed",)))

    S.handlers[crypto._seal] = aead_seal
    S.handlers[crypto._open] = aead_open
    mode = ["own_token", "arbitrary_token"][S.choose(2)]
    key2, aad2, v2 = S.bytes("key2"), S.bytes("aad2"), S.int("version2")
    if mode == "arbitrary_token":
        tok = S.bytes("token")
        out = S.outcome(crypto.open_bytes, tok, key2, aad=aad2, version=v2)
        if out.raised:
            S.oblige("O8.open_rejects_only_with_SealError", exc_is(out.exc, crypto.SealError), kind="raises")
            return
        ev = S.events("aead_open")
        S.oblige("O8.open_accepts_only_what_the_aead_accepts", len(ev) == 1, kind="trace")
        if len(ev) == 1:
            _, body, k, a, nonce = ev[0]
            S.oblige("O8.open_checks_length_and_version_byte", And(tok.length() >= 41, SInt(z3.StrToCode(sub(tok.t, 0, 1))) == v2))
            S.oblige("O8.open_passes_nonce_body_normalised_key_and_aad", And(eq(nonce, B(sub(tok.t, 1, 24))), eq(body, B(sub(tok.t, 25, tok.length() - 25))), eq(k, nk_spec(key2)), a is aad2))
        return
    payload, key, aad, version = S.bytes("payload"), S.bytes("key"), S.bytes("aad"), S.int("version")
    sealed = S.outcome(crypto.seal_bytes, payload, key, aad=aad, version=version)
    if sealed.raised:
        S.oblige("O8.seal_rejects_only_a_version_outside_one_byte", exc_is(sealed.exc, ValueError) and Not(And(version >= 0, version <= 255)), kind="raises")
        S.canary("O8.canary.seal_rejects_only_negative_versions", version < 0)
        return
    tok = sealed.value
    S.oblige("O8.seal_uses_the_normalised_key_and_the_aad", And(eq(G["key"], nk_spec(key)), G["aad"] is aad, G["payload"] is payload, G["nonce"].length() == 24))
    S.oblige("O8.envelope_is_version_nonce_body", eq(tok, B(z3.Concat(models._LE[1](version.t), G["nonce"].t, G["body"].t))))
    # composition: lemmas L0.opener_slice_of_an_envelope_is_its_* (context-free, unit L0) shows the opener's slices of this envelope
    # are the sealed nonce and body; with the opener's contract above and the AEAD contract the own token opens iff the
    # normalised key, the AAD and the (unauthenticated) version byte agree


# ------------------------------------------------------------------------------------------
# O6b: _run_stream_exchange_sync — process / on_cancel / the producer turn only after the cursor token opened
# (the harness is shared with C13, which adds the minting phase)
# ------------------------------------------------------------------------------------------

import uuid  # noqa: E402

from pyarrow import ipc as pa_ipc  # noqa: E402

from vgi_rpc.metadata import CALL_STATE_KEY, CANCEL_KEY, STATE_KEY  # noqa: E402
from vgi_rpc.rpc import _common as rpc_common  # noqa: E402

USER_CODE = ("process", "on_cancel", "producer_turn")


def quiet_hooks(S):
    """C13's harness follows the accepting paths only: hooks and library calls succeed."""
    S.ghost["hooks_never_fail"] = True


_hook = hook


def hook(S, name, *args, exc=RuntimeError):  # noqa: F811 - same contract, optional quiet mode
    if S.ghost.get("hooks_never_fail"):
        S.event(name, *args)
        return
    _hook(S, name, *args, exc=exc)


def install_dispatch_world(S, app, auth):
    """The parts of the HTTP dispatch shells that have nothing to do with tokens, by contract."""
    S.handlers[aps.CallStatistics] = lambda S: SObj(None, kind="Stats")
    S.handlers[aps._current_call_stats.set] = lambda S, v: "stats_token"
    S.handlers[aps._current_call_stats.reset] = lambda S, v: None
    S.handlers[aps._current_stream_id.set] = lambda S, v: None
    S.handlers["StateTypes.get"] = lambda S, m, name: app.fields["_state_info"]
    S.handlers["Methods.get"] = lambda S, m, name: app.fields["_info"]
    S.handlers["_get_auth_and_metadata"] = lambda S: (auth, SObj(None, kind="TransportMetadata"))
    S.handlers["_record_input"] = lambda S, b: None
    S.handlers["_record_output"] = lambda S, b: None
    S.handlers[aps._ClientLogSink] = lambda S, **kw: SObj(None, kind="Sink")
    S.handlers["Sink.flush_contents"] = lambda S, s, w, sch: None
    S.handlers[aps.CallContext] = lambda S, **kw: SObj(None, kind="Ctx", method_name=kw.get("method_name"), auth=kw.get("auth"))
    S.handlers["_dispatch_telemetry"] = lambda S, app_, **kw: SObj(None, kind="Telemetry", outcome=SObj(None, kind="Outcome"))
    S.handlers["Telemetry.__enter__"] = lambda S, t: t.fields["outcome"]
    S.handlers["Telemetry.__exit__"] = lambda S, t, *a: False
    S.handlers["new_ipc_stream"] = lambda S, sink, schema: SObj(None, kind="IpcStream", writer=SObj(None, kind="Writer"))
    S.handlers["IpcStream.__enter__"] = lambda S, c: c.fields["writer"]
    S.handlers["IpcStream.__exit__"] = lambda S, c, *a: False
    S.handlers["Writer.write_batch"] = lambda S, w, batch, custom_metadata=None: S.event("response_batch", custom_metadata)
    S.handlers["empty_batch"] = lambda S, schema: SObj(None, kind="Batch")
    S.handlers[pa.KeyValueMetadata] = lambda S, d: SObj(None, kind="ResponseMetadata", items=d)
    S.handlers["Schema.__eq__"] = lambda S, a, b: S.ghost["is_producer"]


def mk_dispatch_app(S):
    app, key, ttl, impl = mk_app(S)
    server = app.fields["_server"]
    server.fields.update(server_id="srv", protocol_name="P", transport_kind=S.opaque("kind", "TransportKind"), external_config=None, _protocol_version_parts=None, methods=SObj(None, kind="Methods"), ctx_methods=SObj(None, kind="CtxMethods"))
    app.fields.update(_state_types=SObj(None, kind="StateTypes"), _state_info=SObj(None, kind="StateInfo"), _info=SObj(None, kind="MethodInfo", header_type=None, name="m", param_types={}, param_defaults={}, params_schema=None, method_type=SObj(None, kind="MT", value="stream")))
    return app, key, ttl, impl


def run_exchange(S, app, method_name, token, call_token, cancel):
    """Drive the real _run_stream_exchange_sync for a request carrying the given tokens."""

    def kv_get(S, cm, k):
        return {STATE_KEY: token, CALL_STATE_KEY: call_token, CANCEL_KEY: (b"1" if cancel else None)}.get(k)

    S.handlers[pa_ipc.open_stream] = lambda S, stream: SObj(None, kind="IpcReader")
    S.handlers[aps.ValidatedReader] = lambda S, r, v: SObj(None, kind="Reader")
    S.handlers["Reader.read_next_batch_with_custom_metadata"] = lambda S, r: (SObj(None, kind="Batch"), SObj(None, kind="KVMeta"))
    S.handlers["KVMeta.get"] = kv_get
    S.handlers["State.on_cancel"] = lambda S, st_, ctx: hook(S, "on_cancel", st_)
    S.handlers["_run_http_producer_turn"] = lambda S, app_, **kw: (S.event("producer_turn", kw["state"], kw["method_name"]), SObj(None, kind="Body"))[1]
    S.handlers["_run_http_exchange_turn"] = lambda S, app_, **kw: (S.event("process", kw["state"], kw["method_name"]), SObj(None, kind="Body"))[1]
    S.inline.add("_unpack_and_recover_state")
    return S.outcome(aps._run_stream_exchange_sync, app, method_name, SObj(None, kind="HttpBody"))


@unit(
    "C12.O6b _run_stream_exchange_sync: process / on_cancel / producer turn only after the cursor token opened for the request's identity",
    targets=["vgi_rpc/http/server/_app_stream.py::_run_stream_exchange_sync", "vgi_rpc/http/server/_app_stream.py::_unpack_and_recover_state"],
    min_obligations=100,
    max_paths=6000,
)
def exchange_order(S):
    S.prune_lia = True
    install_clock(S)
    cursor = ["accept", "reject"][S.choose(2)]
    install_token_openers(S, cursor_outcomes=(cursor,), call_outcomes=("accept", "reject"))
    if cursor == "accept":
        quiet_hooks(S)  # the failing-hook paths of the recovery are unit O6's; here: what runs after an accepted token
    method = S.str("method_name")
    W = install_recovery_world(S, request_method=method)
    app, key, ttl, impl = mk_dispatch_app(S)
    shape = ["none", "dp"][S.choose(2)]
    auth, ident = mk_auth(S, "1", shape)
    install_dispatch_world(S, app, auth)
    S.ghost["is_producer"] = S.choose(2) == 1
    cancel = S.choose(2) == 1
    token = S.bytes("token") if S.choose(2) == 0 else None
    call_token = S.bytes("call_token") if S.choose(2) == 0 else None
    out = run_exchange(S, app, method, token, call_token, cancel)
    names = [e[0] for e in S.trace]
    if token is not None:
        check_resolution_order(S, S.trace, key, ttl, auth, token, call_token, prefix="O6b", extras={"method_name": method})
    ok = [i for i, n in enumerate(names) if n == "open_cursor_ok"]
    for i, e in enumerate(S.trace):
        if e[0] in USER_CODE:
            S.oblige("O6b.user_code_runs_only_after_the_cursor_token_opened", bool(ok) and ok[0] < i, kind="trace", witness=e[0])
            S.oblige("O6b.user_code_gets_the_state_rebuilt_from_the_authenticated_token", e[1] is W["state"], kind="trace")
    if token is None:
        S.oblige("O6b.missing_token_is_rejected_before_anything_runs", out.raised and is_400(out.exc) and not names, kind="trace")
    if not ok:
        S.oblige("O6b.no_user_code_without_an_opened_cursor_token", not any(n in USER_CODE or n in PROTECTED for n in names), kind="trace")
        S.oblige("O7.rejected_request_is_http_400", out.raised and is_400(out.exc), kind="raises")
    elif out.returned:
        ran = [n for n in names if n in USER_CODE]
        want = ["on_cancel"] if cancel else (["producer_turn"] if S.ghost["is_producer"] else ["process"])
        S.oblige("O6b.accepted_request_runs_exactly_its_branch", ran == want, kind="trace")
    S.canary("O6b.canary.cancel_never_runs_user_code", SBool(z3.BoolVal("on_cancel" not in names)))


# ------------------------------------------------------------------------------------------
# L8 end to end: tokens minted by the real /init path for identity 1 (method m1), presented to the real
# /exchange path as identity 2 (method m2); the AEAD contract decides on key and AAD equality only.
# Shared with C13 (which states the method clause on the same harness).
# ------------------------------------------------------------------------------------------

def is_method_name(s):
    """Stream method names are Python identifiers; all the binding argument needs from that is: non-empty and
    NUL-free (a superset, so the proof covers more than the property asks and stays free of regex reasoning)."""
    return And(nul_free(s), s.length() > 0)


def mint_then_exchange(S, shapes=("none", "dp"), vary=True, same_shape=False, on_accept=None, same_method=False, on_call_accept=None):
    S.prune_lia = True
    install_clock(S)
    quiet_hooks(S)
    m1 = S.str("minting_method")
    m2 = m1 if same_method else S.str("exchange_method")
    S.assume(And(is_method_name(m1), is_method_name(m2)))
    sh1 = shapes[S.choose(len(shapes))]
    a1, i1 = mk_auth(S, "1", sh1)
    a2, i2 = mk_auth(S, "2", sh1 if same_shape else shapes[S.choose(len(shapes))])
    S.assume(And(nul_free(i1[1]), nul_free(i2[1])))
    app, key, ttl, impl = mk_dispatch_app(S)
    if vary:
        for x in (i1[1], i1[2], i2[1], i2[2]):  # the many-request-shapes harness (C13) takes non-empty domains / principals:
            if isinstance(x, SStr):  # the empty-string corner cases of the identity encoding are C12.L2/L8's, not the method binding's
                S.assume(x.length() > 0)
        S.assume(ttl > 0)  # expiry configured (ttl = 0 only drops the created_at bookkeeping; halves the paths of the big harness)
    # ---- phase A: POST /m1/init as identity 1 (the real init shell and mint functions; sealing by contract)
    install_dispatch_world(S, app, a1)
    install_seal_contracts(S)
    S.inline.update({"_mint_call_token", "_mint_cursor_token", "_run_http_exchange_init", "_ResolvedCall"})
    S.ghost["is_producer"] = False  # an exchange stream: /init answers with the two tokens
    S.handlers["_read_request"] = lambda S, stream, v, ext=None: (m1, {})
    for nm in ("_deserialize_params", "_validate_call_signature", "_validate_params"):
        S.handlers[nm] = lambda S, *a, **k: None
    S.handlers["CtxMethods.__contains__"] = lambda S, c, x: False
    S.handlers[uuid.uuid4] = lambda S: SObj(None, kind="UUID", hex=S.str("stream_id"))
    result = SObj(None, kind="StreamResult", call_state=None, output_schema=SObj(None, kind="Schema"), input_schema=SObj(None, kind="Schema"), state=SObj(None, kind="InitState"), header=None)

    def getattr_(S, obj, name, *default):
        if isinstance(name, SStr):
            S.event("init_method_lookup", obj, name)
            return SObj(None, kind="ImplMethod")
        return models.b_getattr(S.interp, obj, name, *default)

    S.handlers[getattr] = getattr_
    S.handlers["ImplMethod.__call__"] = lambda S, f, **kw: result
    S.handlers["Cache.put"] = lambda S, c, call_id, auth, resolved, now: S.event("cache.put", call_id, auth, resolved)
    S.handlers[os.urandom] = lambda S, k: _fresh_bytes(S, "call_id", k)
    S.handlers["Schema.serialize"] = lambda S, o: SObj(None, kind="Buf")
    S.handlers["Buf.to_pybytes"] = lambda S, o: S.bytes("schema_bytes")
    S.handlers["_serialize_state_bytes"] = lambda S, state, info: S.bytes("minted_state_bytes")
    minted = S.outcome(aps._run_stream_init_sync, app, m1, app.fields["_info"], SObj(None, kind="HttpBody"))
    cur, call = S.events("seal_cursor"), S.events("seal_call")
    R = dict(m1=m1, m2=m2, i1=i1, i2=i2, a1=a1, a2=a2, key=key, ttl=ttl, minted=minted, cur=cur, call=call, response=S.events("response_batch"))
    if not (minted.returned and len(cur) == 1 and len(call) == 1):
        return R
    _, ctok, cstate, ccall_id, ckey, caad, ccreated = cur[0]
    _, ktok, kcs, kcall_id, kkey, kaad, kcreated, ksid = call[0]
    # ---- phase B: POST /m2/exchange as identity 2 carrying those tokens.  Idealised AEAD: a token opens iff it is
    # presented under the key and AAD it was sealed with (its fields are then the sealed ones); otherwise HTTP 400.
    start = len(S.trace)
    install_dispatch_world(S, app, a2)

    def open_cursor(S, token, token_key, aad, token_ttl=0):
        if token is ctok and S.fork(And(eq(token_key, ckey), eq(aad, caad))):
            S.event("open_cursor_ok", token, token_key, aad, token_ttl, cstate, ccall_id)
            if on_accept is not None:
                # stated where the AEAD accepted, before the request branches further: the query is the same for every
                # continuation of this prefix (solved once), and S.lemma hands the fact to the obligations that follow
                on_accept(S, R)
            return (cstate, ccall_id)
        S.event("open_cursor_rejected", token, token_key, aad, token_ttl)
        raise PyRaise(rpc_400("token rejected"))

    # another stream's call token (minted by some other /init: its own fresh call id, sealed under whatever AAD)
    other_tok, other_aad, other_call_id = S.bytes("other_call_token"), S.bytes("other_call_aad"), S.bytes("other_call_id")
    S.assume(And(other_call_id.length() == 16, Not(eq(other_call_id, ccall_id))))  # call ids are fresh per /init (os.urandom)

    def open_call(S, token, token_key, aad, token_ttl=0, **out_params):
        S.event("open_call", token, token_key, aad, token_ttl)
        if token is ktok and S.fork(And(eq(token_key, kkey), eq(aad, kaad))):
            r = (kcs, "", S.bytes("schema_bytes_out"), S.bytes("schema_bytes_in"), kcall_id, ksid)
            S.event("open_call_ok", token, token_key, aad, token_ttl, r)
            if on_call_accept is not None:
                on_call_accept(S, R)  # as on_accept: stated where the AEAD accepted the call token
            report_created_at(S, out_params, kcreated)
            return r
        if token is other_tok and S.fork(And(eq(token_key, kkey), eq(aad, other_aad))):
            r = (S.bytes("other_call_state"), "", S.bytes("schema_bytes_out"), S.bytes("schema_bytes_in"), other_call_id, S.str("other_stream_id"))
            S.event("open_call_ok", token, token_key, aad, token_ttl, r)
            report_created_at(S, out_params, S.int("other_created_at"))
            return r
        raise PyRaise(rpc_400("token rejected"))

    S.handlers["_open_cursor_token"] = open_cursor
    S.handlers["_open_call_token"] = open_call
    S.inline.update({"_compute_aad", "_compute_call_aad"})
    R["W"] = W = install_recovery_world(S)

    # the cache of the worker that receives the request.  Invariant I (proved on this harness, obligations *_entry_carries_*):
    # an entry filed under a call id records the method whose /init minted that call id - the warm-up entry of /init
    # records the dispatch's method, and a miss-path entry is recorded only after the call token of that very call id
    # opened under the AAD of the dispatch's method.  So whatever this worker holds for the authenticated call id of the
    # cursor token is an entry recorded for m1 (or nothing).
    def cache_get(S, c, call_id, auth, now):
        S.event("cache.get", call_id, auth)
        if S.choose(2) == 0:
            S.inputs["cache"] = "holds_the_entry_of_the_minting_method"
            W["hit"] = cached_entry(S, m1)
            return W["hit"]
        S.inputs["cache"] = "empty"
        return None

    S.handlers["Cache.get"] = cache_get
    # request shapes: exchange turn / producer continuation / cancel; echoing the own call token, none, or another stream's
    shapes_b = [(False, False, "own"), (True, False, "own"), (False, True, "own"), (False, False, None), (True, True, None), (False, False, "other")]
    is_prod, cancel, which_call = shapes_b[S.choose(len(shapes_b))] if vary else shapes_b[0]
    S.ghost["is_producer"] = is_prod
    S.inputs.update(is_producer=S.ghost["is_producer"], cancel=cancel, call_token=which_call or "none")
    R["out"] = run_exchange(S, app, m2, ctok, {"own": ktok, "other": other_tok, None: None}[which_call], cancel)
    R["puts_a"] = [e for e in S.trace[:start] if e[0] == "cache.put"]
    R["puts_b"] = [e for e in S.trace[start:] if e[0] == "cache.put"]
    R["trace_b"] = S.trace[start:]
    R["ran"] = [e for e in R["trace_b"] if e[0] in USER_CODE]
    return R


from dataclasses import dataclass as _dataclass  # noqa: E402
from typing import Protocol as _Protocol  # noqa: E402

from vgi_rpc.rpc import AnnotatedBatch, CallContext, ExchangeState, OutputCollector, RpcServer, Stream  # noqa: E402

_SEEN: list = []
_ACC_SCHEMA = pa.schema([pa.field("value", pa.int64())])


@_dataclass
class _Acc(ExchangeState):
    owner: str
    total: int

    def exchange(self, input: AnnotatedBatch, out: OutputCollector, ctx: CallContext) -> None:  # noqa: A002
        self.total += sum(input.batch.column("value").to_pylist())
        _SEEN.append((ctx._method_name, self.owner, self.total, ctx.auth.principal))
        out.emit_arrays([pa.array([self.total], type=pa.int64())])


class _TwoMethods(_Protocol):
    def a(self, start: int) -> Stream[ExchangeState]: ...

    def b(self, start: int) -> Stream[ExchangeState]: ...


class _TwoMethodsImpl:
    def a(self, start: int) -> Stream[_Acc]:
        return Stream(output_schema=_ACC_SCHEMA, state=_Acc(owner="a", total=start), input_schema=_ACC_SCHEMA)

    def b(self, start: int) -> Stream[_Acc]:
        return Stream(output_schema=_ACC_SCHEMA, state=_Acc(owner="b", total=start), input_schema=_ACC_SCHEMA)


def native_two_method_app(token_key=b"k" * 32, cache_entries=4096, authenticate=None):
    """A real HTTP app with two exchange-stream methods of identical state type (native replay of L8 / C13)."""
    from vgi_rpc.http._testing import make_sync_client

    client = make_sync_client(RpcServer(_TwoMethods, _TwoMethodsImpl()), token_key=token_key, call_state_cache_entries=cache_entries, authenticate=authenticate)
    return client, _SEEN, _ACC_SCHEMA


def native_init(client, method, start, headers=None):
    from io import BytesIO

    from vgi_rpc.metadata import REQUEST_VERSION, REQUEST_VERSION_KEY, RPC_METHOD_KEY
    from vgi_rpc.utils import IpcValidation, ValidatedReader

    sch = pa.schema([pa.field("start", pa.int64(), nullable=False)])
    buf = BytesIO()
    md = pa.KeyValueMetadata({RPC_METHOD_KEY: method.encode(), REQUEST_VERSION_KEY: REQUEST_VERSION})
    with pa_ipc.new_stream(buf, sch) as w:
        w.write_batch(pa.RecordBatch.from_pydict({"start": [start]}, schema=sch), custom_metadata=md)
    r = client.post(f"http://t/{method}/init", content=buf.getvalue(), headers={"Content-Type": "application/vnd.apache.arrow.stream", **(headers or {})})
    if r.status_code != 200:
        raise RuntimeError(f"/init failed: {r.status_code}")
    _, cm = ValidatedReader(pa_ipc.open_stream(BytesIO(r.content)), IpcValidation.NONE).read_next_batch_with_custom_metadata()
    return cm.get(STATE_KEY), cm.get(CALL_STATE_KEY)


def native_exchange(client, schema, method, token, call_token, value, headers=None):
    from io import BytesIO

    buf = BytesIO()
    md = {STATE_KEY: token}
    if call_token is not None:
        md[CALL_STATE_KEY] = call_token
    with pa_ipc.new_stream(buf, schema) as w:
        w.write_batch(pa.RecordBatch.from_pydict({"value": [value]}, schema=schema), custom_metadata=pa.KeyValueMetadata(md))
    r = client.post(f"http://t/{method}/exchange", content=buf.getvalue(), headers={"Content-Type": "application/vnd.apache.arrow.stream", **(headers or {})})
    return r.status_code


def replay_end_to_end(inputs, ob):
    """Mint at /a/init as identity 1, present at /<a or b>/exchange as identity 2; user code must run only for the
    same identity and the same method."""
    from vgi_rpc.rpc import AuthContext as AC

    m1 = inputs.get("minting_method", "a")
    m2 = inputs.get("exchange_method", m1)
    same_method = m1 == m2
    ids = []
    for tag in ("1", "2"):
        ids.append(native_auth(inputs.get(f"shape{tag}", "none"), inputs.get(f"domain{tag}"), inputs.get(f"principal{tag}")))
    if any(a is not None and a.authenticated and "\x00" in (a.domain or "") for a in ids):
        return ReplayResult(False, "model domain contains NUL")
    who = {"1": ids[0], "2": ids[1]}

    def authenticate(req):
        a = who[req.get_header("X-Who") or "1"]
        return a if a is not None else AC.anonymous()

    lines, bad = [], False
    for cache_entries in (4096, 0):
        client, seen, schema = native_two_method_app(cache_entries=cache_entries, authenticate=authenticate)
        try:
            tok, call = native_init(client, "a", 7, headers={"X-Who": "1"})
            seen.clear()
            target = "a" if same_method else "b"
            status = native_exchange(client, schema, target, tok, call, 0, headers={"X-Who": "2"})
        finally:
            client.close()
        same_id = native_identity(ids[0]) == native_identity(ids[1])
        violated = bool(seen) and not (same_method and same_id)
        bad = bad or violated
        lines.append(f"cache_entries={cache_entries}: tokens of /a (identity {native_identity(ids[0])}) at /{target}/exchange as {native_identity(ids[1])} -> HTTP {status}, process() calls (method, state owner, total, principal) = {seen}")
    return ReplayResult(bad, "; ".join(lines))


@unit(
    "C12.L8 end to end: tokens minted by /init for one identity reach user code at /exchange only for the same identity",
    targets=["vgi_rpc/http/server/_app_stream.py::_run_stream_init_sync", "vgi_rpc/http/server/_app_stream.py::_run_stream_exchange_sync", "vgi_rpc/http/server/_state_token.py::_mint_cursor_token", "vgi_rpc/http/server/_state_token.py::_mint_call_token"],
    replay=replay_end_to_end,
    min_obligations=30,
    max_paths=3000,
)
def end_to_end_identity(S):
    def accepted(S, R):
        S.lemma("L8.a_cursor_token_opens_only_for_the_identity_it_was_minted_for", same_identity(R["i1"], R["i2"]))

    # the same method on both sides (cross-method presentation is C13's question); continuation / cancel variants: O6b
    R = mint_then_exchange(S, vary=False, on_accept=accepted, same_method=True)
    S.oblige("L8.init_mints_one_cursor_and_one_call_token", R["minted"].returned and len(R["cur"]) == 1 and len(R["call"]) == 1, kind="trace")
    if "out" not in R:
        return
    cur, call = R["cur"][0], R["call"][0]
    S.oblige("L8.both_tokens_sealed_under_the_server_key_at_the_minting_time", And(cur[4] is R["key"], call[4] is R["key"], eq(cur[6], call[6])), kind="trace")
    S.oblige("L8.cursor_token_carries_the_call_id_of_its_call_token", cur[3] is call[3], kind="trace")
    resp = [e[1] for e in R["response"] if e[1] is not None]
    S.oblige("L8.init_response_carries_exactly_the_two_sealed_tokens", len(resp) == 1 and isinstance(resp[0], SObj) and resp[0].fields["items"].get(STATE_KEY) is cur[1] and resp[0].fields["items"].get(CALL_STATE_KEY) is call[1], kind="trace")
    for e in R["ran"]:
        S.oblige("L8.user_code_runs_only_for_the_minting_identity", same_identity(R["i1"], R["i2"]), witness=e[0])
    S.canary("L8.canary.minted_tokens_never_reach_user_code", SBool(z3.BoolVal(not R["ran"])))
