"""C12 Stream state tokens are unforgeable, identity-bound and opaque (DESIGN §5 C12).

Under contract: _compute_aad / _compute_call_aad, _read_segment, _seal/_open_cursor_token,
_seal/_open_call_token, _pack/_unpack_plaintext, _mint_cursor_token / _mint_call_token (seal sites),
_unpack_and_recover_state + _resolve_call_from_token (resolution order), crypto.seal_bytes/open_bytes
(envelope framing).  The AEAD primitive itself, base64, zstd and the clock are assumed contracts.
"""

from __future__ import annotations

import base64
import binascii
import hashlib
import inspect
import os
import secrets
import time as _time
from http import HTTPStatus

import z3
import zstandard

import vgi_rpc.http.server._app_stream as aps
import vgi_rpc.http.server._state_token as st
from pyvc import models
from pyvc.api import *  # noqa: F403
from pyvc.api import PyRaise, ReplayResult, unit
from pyvc.core import is_bytes_term
from vgi_rpc import crypto
from vgi_rpc.http._common import _RpcHttpError
from vgi_rpc.rpc import AuthContext

MANIFEST = {
    "level_text": "Deductive proof over the real token code, for every identity pair, key, token, plaintext, clock reading and TTL: the cursor and call AADs are injective functions of the caller identity (anonymous | (domain, principal), NUL-free domains) and never coincide with each other; every seal site binds the AAD of the minting identity, the server key and the minting time; the plaintext parsers invert the packers and are total (fields or HTTP 400, never IndexError/struct.error) on arbitrary authenticated plaintext; a token is accepted only within its TTL; in _unpack_and_recover_state every cache lookup, call-token open, deserialisation and user hook (bind_call_state, rehydrate) is preceded by a successful open of the cursor token under the request's own AAD, key and TTL, cache.put only after the call ids matched; every rejection is HTTP 400; and the token is exactly base64 of the AEAD envelope. Combined with the assumed AEAD contract this gives: accepted => minted under the same key for the same identity within the TTL. Tests tamper a handful of bytes and one other principal; the proof quantifies over all of them.",
    "level_note": "Modulo the idealised AEAD contract (an envelope opens only if it was sealed under the same normalised key and AAD; confidentiality assumed, on which the 'opaque' clause rests); base64/zstd round trips and totality, hmac.compare_digest == equality, UTF-8 encode injective, clock read at whole seconds are assumed; the version byte of the envelope is NOT authenticated by the real crypto, so kind separation rests on the AADs (proved) and not on versions; sticky-session tokens are sealed under the same key and the same cursor AAD and are separated from cursor tokens only by that version byte and payload framing (assumption, see ASSUMPTIONS); process/on_cancel ordering in _run_stream_exchange_sync is proved in C13's harness. The uniformity clause ('no detail distinguishing which check failed') is checked literally and is refuted on a tree whose 400 messages differ per check.",
    "technique": "contract-based deductive verification: path-wise postconditions on the real functions, string lemmas (z3 seq, cvc5 --strings-exp), ghost trace of open/lookup/deserialise/hook events, idealised AEAD as handlers over ghost state",
    "design_ref": "DESIGN.md §5 C12",
}
EXPLANATION = MANIFEST["level_text"]
TRUSTED = [
    "pyvc VC generator, its string/bytes/struct encodings; z3 5.1.0 / cvc5 1.0.3",
    "AEAD (XChaCha20-Poly1305 via _seal/_open): _open(body,key,aad,nonce) returns p iff body was produced by _seal(p,key,aad,nonce); otherwise SealError; ciphertext reveals nothing of p (assumed, not proved)",
    "base64: b64decode(b64encode(x)) = x; b64decode(validate=True) returns bytes or raises binascii.Error",
    "zstandard: decompress(compress(x)) = x; decompress returns at most max_output_size bytes or raises ZstdError",
    "hmac/secrets.compare_digest(a,b) <=> a == b; hashlib.sha256(...).digest() is a 32-byte function of its input; os.urandom(n) returns n bytes",
    "str.encode() (UTF-8) is injective and preserves the presence of NUL",
]
ASSUMPTIONS = [
    "time.time() is read at whole-second resolution (int(time.time()) is the modelled clock value)",
    "domains are NUL-free (the property's own restriction); without it the injectivity lemma is refuted (canary)",
    "the envelope's version byte is unauthenticated in crypto.seal_bytes (not part of the AAD): open_bytes(t) succeeds for a re-labelled version byte; C12 therefore uses only key+AAD equality from the AEAD contract",
    "sticky-session tokens (_sticky._seal_session_token) are sealed with the same token key and the same _compute_aad(auth) as cursor tokens; a session token with its version byte rewritten passes the cursor AEAD check for the same identity and is rejected only by payload framing / call-id resolution; identity binding (L2) is unaffected, the TTL and framing clauses are proved for tokens minted by _seal_cursor_token/_seal_call_token",
    "_open_call_token on an authenticated plaintext whose type / stream-id segments are not UTF-8 raises UnicodeDecodeError (not 400); unreachable for tokens minted by _seal_call_token (both segments are str.encode() results)",
    "seal-time preconditions: call_id is 16 bytes, created_at in [0, 2^64), every segment < 2^32 bytes, framed plaintext <= 64 MiB (larger compressible payloads would fail to re-open: availability, not security)",
    "user hooks (bind_call_state, rehydrate, deserialisers, schema readers) are arbitrary: return or raise any Exception",
]

NUL = z3.StringVal("\x00")
STR = z3.StringSort()
U64 = 2**64
U32 = 2**32
MAXP = st._MAX_TOKEN_PLAINTEXT_BYTES


def B(t):
    return SBytes(t)


def sub(t, lo, n):
    return z3.SubString(t, _t(lo), _t(n))


def _t(x):
    return x.t if isinstance(x, SInt) else (z3.IntVal(x) if isinstance(x, int) else x)


# ------------------------------------------------------------------------------------------
# identities (from the property statement): anonymous | (domain-or-"", principal-or-"")
# ------------------------------------------------------------------------------------------

AUTH_SHAPES = ["none", "unauth", "dp", "d-", "-p", "--"]


def mk_auth(S, tag, shape):
    """A symbolic AuthContext of the given shape and its identity (kind, domain, principal)."""
    S.inputs[f"shape{tag}"] = shape
    if shape == "none":
        return None, ("anon", "", "")
    d = S.str(f"domain{tag}") if shape[0] == "d" or shape == "unauth" else None
    p = S.str(f"principal{tag}") if shape[1] == "p" or shape == "unauth" else None
    if shape == "unauth":
        return SObj(AuthContext, domain=d, authenticated=False, principal=p), ("anon", "", "")
    return SObj(AuthContext, domain=d, authenticated=True, principal=p), ("auth", d if d is not None else "", p if p is not None else "")


def same_identity(i, j):
    if i[0] != j[0]:
        return False
    if i[0] == "anon":
        return True
    return And(eq(i[1], j[1]), eq(i[2], j[2]))


def nul_free(x):
    return True if isinstance(x, str) and "\x00" not in x else Not(SBool(z3.Contains(strterm(x), NUL)))


def native_auth(shape, d, p):
    if shape == "none":
        return None
    if shape == "unauth":
        return AuthContext(domain=d, authenticated=False, principal=p)
    return AuthContext(domain=d if shape[0] == "d" else None, authenticated=True, principal=p if shape[1] == "p" else None)


def native_identity(a):
    if a is None or not a.authenticated:
        return ("anon",)
    return ("auth", a.domain or "", a.principal or "")


def invoke(S, fn, *args, **kw):
    """Call the real function; any *additional required* parameter it has on this tree (beyond what the
    contract knows) is universally quantified (a fresh symbolic string), so the contract stays meaningful
    when a signature grows."""
    sig = inspect.signature(fn)
    names = list(sig.parameters)
    extra = {}
    for i, (n, p) in enumerate(sig.parameters.items()):
        if i < len(args) or n in kw or p.default is not inspect.Parameter.empty or p.kind in (p.VAR_POSITIONAL, p.VAR_KEYWORD):
            continue
        extra[n] = S.str(f"{fn.__name__}.{n}")
    del names
    return S.outcome(fn, *args, **kw, **extra)


def native_invoke(fn, *args, **kw):
    sig = inspect.signature(fn)
    for i, (n, p) in enumerate(sig.parameters.items()):
        if i < len(args) or n in kw or p.default is not inspect.Parameter.empty or p.kind in (p.VAR_POSITIONAL, p.VAR_KEYWORD):
            continue
        kw[n] = "m"
    return fn(*args, **kw)


def replay_aad(inputs, ob):
    a1 = native_auth(inputs["shape1"], inputs.get("domain1"), inputs.get("principal1"))
    a2 = native_auth(inputs["shape2"], inputs.get("domain2"), inputs.get("principal2"))
    for a in (a1, a2):
        if a is not None and a.authenticated and "\x00" in (a.domain or ""):
            return ReplayResult(False, "model domain contains NUL (outside the property's quantifier)")
    i1, i2 = native_identity(a1), native_identity(a2)
    cur1, cur2 = native_invoke(st._compute_aad, a1), native_invoke(st._compute_aad, a2)
    cal1, cal2 = native_invoke(st._compute_call_aad, a1), native_invoke(st._compute_call_aad, a2)
    problems = []
    if i1 != i2 and cur1 == cur2:
        problems.append(f"cursor AAD collides: {cur1!r}")
    if i1 != i2 and cal1 == cal2:
        problems.append(f"call AAD collides: {cal1!r}")
    if cur1 == cal2 or cur2 == cal1:
        problems.append(f"cursor AAD equals a call AAD: {cur1!r}")
    return ReplayResult(bool(problems), f"identities {i1} / {i2}: " + "; ".join(problems))


def search_aad(ob, seed):
    """Native hunt over identity pairs whose concatenations coincide."""
    vals = [None, "", "a", "b", "ab", "a\x00b", "\x00", "anonymous", "\x00anonymous", "\x01"]
    doms = [v for v in vals if v is None or "\x00" not in v]
    shapes = [("none", None, None), ("unauth", "a", "b")] + [("dp", d, p) for d in doms for p in vals]
    for s1, d1, p1 in shapes:
        for s2, d2, p2 in shapes:
            inputs = {"shape1": s1, "domain1": d1, "principal1": p1, "shape2": s2, "domain2": d2, "principal2": p2}
            rr = replay_aad(inputs, ob)
            if rr.confirmed:
                return inputs, rr
    return None


@unit(
    "C12.L2 AAD injective in the identity, L3 cursor/call AADs disjoint (=> L8: accepted means same identity, same kind)",
    targets=["vgi_rpc/http/server/_state_token.py::_compute_aad", "vgi_rpc/http/server/_state_token.py::_compute_call_aad"],
    replay=replay_aad,
    search=search_aad,
    min_obligations=100,
)
def aad(S):
    # identity 1 = the identity a token was minted for, identity 2 = the requester's
    s1 = AUTH_SHAPES[S.choose(len(AUTH_SHAPES))]
    s2 = AUTH_SHAPES[S.choose(len(AUTH_SHAPES))]
    a1, i1 = mk_auth(S, "1", s1)
    a2, i2 = mk_auth(S, "2", s2)
    cur1, cur2 = invoke(S, st._compute_aad, a1).value, invoke(S, st._compute_aad, a2).value
    cal1, cal2 = invoke(S, st._compute_call_aad, a1).value, invoke(S, st._compute_call_aad, a2).value
    S.canary("L2.canary.injective_without_nul_free_domains", Implies(eq(cur1, cur2), same_identity(i1, i2)))
    S.assume(And(nul_free(i1[1]), nul_free(i2[1])))  # the property's quantifier: domains are NUL-free
    S.oblige("L2.cursor_aad_injective", Implies(eq(cur1, cur2), same_identity(i1, i2)), kind="lemma")
    S.oblige("L2.call_aad_injective", Implies(eq(cal1, cal2), same_identity(i1, i2)), kind="lemma")
    S.oblige("L3.cursor_aad_differs_from_call_aad", And(Not(eq(cur1, cal2)), Not(eq(cur2, cal1))), kind="lemma")


# ------------------------------------------------------------------------------------------
# assumed library contracts used by the token functions (TRUSTED)
# ------------------------------------------------------------------------------------------

B64E = z3.Function("b64encode", STR, STR)
B64D = z3.Function("b64decode", STR, STR)
B64V = z3.Function("b64valid", STR, z3.BoolSort())
ZD = z3.Function("zstd_decompress", STR, STR)
ZOK = z3.Function("zstd_frame_ok", STR, z3.BoolSort())


def install_codecs(S):
    """base64 and zstd by their (assumed) library contracts: decode(encode(x)) = x, decoders total
    (value or the library's error), decompress honours max_output_size."""

    def b64encode(S, data):
        if isinstance(data, bytes):
            return base64.b64encode(data)
        r = B64E(bytesterm(data))
        S.assume(And(SBool(is_bytes_term(r)), SBool(B64V(r)), SBool(B64D(r) == bytesterm(data))))
        return SBytes(r)

    def b64decode(S, tok, validate=False):
        if isinstance(tok, bytes):
            try:
                return base64.b64decode(tok, validate=validate)
            except Exception as e:
                S.event("b64_invalid")
                raise PyRaise(e) from None
        t = bytesterm(tok)
        if not S.fork(SBool(B64V(t))):
            S.event("b64_invalid")
            raise PyRaise(SExc(binascii.Error, ("Invalid base64-encoded string",)))
        r = B64D(t)
        S.assume(SBool(is_bytes_term(r)))
        return SBytes(r)

    S.handlers[base64.b64encode] = b64encode
    S.handlers[base64.b64decode] = b64decode

    def compress(S, c, data):
        r = SBytes(z3.String(S.fresh_name("zstd_out")))
        S.assume(And(SBool(is_bytes_term(r.t)), SBool(ZOK(r.t)), SBool(ZD(r.t) == bytesterm(data))))
        return r

    def decompress(S, d, data, max_output_size=0):
        t = bytesterm(data)
        r = ZD(t)
        S.assume(SBool(is_bytes_term(r)))
        ok = And(SBool(ZOK(t)), Or(max_output_size == 0, SBool(z3.Length(r) <= max_output_size)))
        if not S.fork(ok):
            raise PyRaise(SExc(zstandard.ZstdError, ("decompression error",)))
        S.ghost["decompressed"] = SBytes(r)
        return SBytes(r)

    S.handlers["_compressor"] = lambda S: SObj(None, kind="ZstdC")
    S.handlers["_decompressor"] = lambda S: SObj(None, kind="ZstdD")
    S.handlers["ZstdC.compress"] = compress
    S.handlers["ZstdD.decompress"] = decompress
    S.inline.update({"_pack_plaintext", "_unpack_plaintext", "_read_segment"})


def install_clock(S):
    now = S.int("now")
    S.assume(now >= 0)

    def clock(S):
        S.event("clock_read")
        return now

    S.handlers[_time.time] = clock
    return now


def is_400(e):
    return exc_is(e, _RpcHttpError) and e.attrs.get("status_code") is HTTPStatus.BAD_REQUEST


def detail(e):
    """What reaches the client from a rejection (_set_error_response(e.cause, status_code)): status, class and args of the cause."""
    c = e.attrs.get("cause") if isinstance(e, SExc) else None
    return (e.attrs.get("status_code") if isinstance(e, SExc) else None, exc_class(c) if c is not None else None, tuple(c.args) if isinstance(c, SExc) else None)


def same_detail(d1, d2):
    if d1[0] is not d2[0] or d1[1] is not d2[1] or d1[2] is None or d2[2] is None or len(d1[2]) != len(d2[2]):
        return False
    return And(*[eq(x, y) for x, y in zip(d1[2], d2[2])])


def reference_rejection(S):
    """The rejection the real _open_cursor_token gives for a well-formed envelope that fails AEAD
    authentication (tampered / foreign key / other identity): the reference all other token rejections
    must be indistinguishable from."""
    saved = dict(S.handlers)

    def refuse(S, token, key, *, aad, version=1):
        raise PyRaise(SExc(crypto.SealError, ("token verification failed",)))

    S.handlers[crypto.open_bytes] = refuse
    out = S.outcome(st._open_cursor_token, base64.b64encode(b"\x05" + bytes(48)), bytes(32), b"aad", 0)
    S.handlers = saved
    S.trace.clear()
    if not (out.raised and isinstance(out.exc, SExc)):
        return (None, None, None)
    return detail(out.exc)


def py_400(e):
    return isinstance(e, _RpcHttpError) and e.status_code == HTTPStatus.BAD_REQUEST


def py_detail(e):
    return (getattr(e, "status_code", None), type(getattr(e, "cause", None)), str(getattr(e, "cause", None)))


def py_reference():
    try:
        st._open_cursor_token(base64.b64encode(b"\x05" + bytes(48)), bytes(32), b"aad", 0)
    except Exception as e:
        return py_detail(e)
    return None


class patched_clock:
    def __init__(self, now):
        self.now = now

    def __enter__(self):
        self.saved = st.time.time
        st.time = type("T", (), {"time": staticmethod(lambda: float(self.now))})
        return self

    def __exit__(self, *a):
        import time

        st.time = time


# ------------------------------------------------------------------------------------------
# O4a framing: _read_segment
# ------------------------------------------------------------------------------------------


def replay_read_segment(inputs, ob):
    import struct

    data, pos = inputs["data"], inputs["pos"]
    try:
        seg, end = st._read_segment(data, pos, "m")
    except Exception as e:
        return ReplayResult(not py_400(e), f"_read_segment({data!r}, {pos}) raised {type(e).__name__}: {e}")
    bad = end > len(data) or end != pos + 4 + len(seg) or data[pos + 4 : end] != seg or struct.unpack_from("<I", data, pos)[0] != len(seg)
    return ReplayResult(bad, f"_read_segment({data!r}, {pos}) -> ({seg!r}, {end})")


def search_read_segment(ob, seed):
    import struct

    for n in (0, 1, 2, 3, 5, 2**32 - 1):
        for body in (b"", b"ab", b"abcde"):
            for cut in (0, 1, 3, 4, 5):
                data = (struct.pack("<I", n) + body)[: 4 + len(body) - cut] if cut else struct.pack("<I", n) + body
                for pos in (0, 1, 4):
                    inputs = {"data": b"\x00" * pos + data, "pos": pos}
                    rr = replay_read_segment(inputs, ob)
                    if rr.confirmed:
                        return inputs, rr
    return None


@unit("C12.O4a _read_segment is total and bounded", targets=["vgi_rpc/http/server/_state_token.py::_read_segment"], replay=replay_read_segment, search=search_read_segment, min_obligations=5)
def read_segment(S):
    data, pos = S.bytes("data"), S.int("pos")
    S.assume(pos >= 0)  # call sites: 24, or the end offset of the previous segment
    out = S.outcome(st._read_segment, data, pos, "m")
    n = data.length()
    if out.raised:
        S.oblige("O4a.rejects_only_with_400", is_400(out.exc), kind="raises")
        S.canary("O4a.canary.rejects_only_short_headers", pos + 4 > n)
        return
    seg, end = out.value
    ln = SInt(models._UNLE[4](sub(data.t, pos, 4)))
    S.oblige("O4a.header_inside_data", pos + 4 <= n)
    S.oblige("O4a.segment_inside_data", And(end <= n, end == pos + 4 + seg.length()))
    S.oblige("O4a.segment_is_the_announced_slice", And(seg.length() == ln, eq(seg, B(sub(data.t, pos + 4, ln)))))
    S.oblige("O4a.data_is_prefix_header_segment_rest", eq(data, B(z3.Concat(sub(data.t, 0, pos), models._LE[4](ln.t), seg.t, sub(data.t, end, n - end)))))


# ------------------------------------------------------------------------------------------
# token open on an arbitrary presented token (cursor and call): totality, re-encoding, TTL, 400, uniformity
# ------------------------------------------------------------------------------------------

KINDS = {
    "cursor": dict(open=st._open_cursor_token, seal=st._seal_cursor_token, nseg=1, version="_CURSOR_TOKEN_VERSION"),
    "call": dict(open=st._open_call_token, seal=st._seal_call_token, nseg=5, version="_CALL_TOKEN_VERSION"),
}


def native_token(kind, payload, key, aad):
    return base64.b64encode(crypto.seal_bytes(payload, key, aad=aad, version=getattr(st, KINDS[kind]["version"])))


def native_plain(payload):
    return st._unpack_plaintext(payload)


def judge_open(kind, token, key, aad, ttl, now, expect_plain=None):
    """Run the real opener natively and judge totality / re-encoding / TTL / 400 / uniformity."""
    import struct

    ref = py_reference()
    with patched_clock(now):
        try:
            r = KINDS[kind]["open"](token, key, aad, ttl)
        except Exception as e:
            if not py_400(e):
                return True, f"raised {type(e).__name__}: {e} (not the module's HTTP 400)", e
            return False, f"rejected: {py_detail(e)}", e
    if expect_plain is None:
        return False, f"accepted -> {r!r}", None
    plain = expect_plain
    created = struct.unpack_from("<Q", plain, 0)[0]
    if kind == "cursor":
        state, call_id = r
        enc = plain[:8] + call_id + struct.pack("<I", len(state)) + state
    else:
        cs, ty, sch, isch, call_id, sid = r
        enc = plain[:8] + call_id
        for seg in (cs, ty.encode(), sch, isch, sid.encode()):
            enc += struct.pack("<I", len(seg)) + seg
    problems = []
    if enc != plain or len(call_id) != 16:
        problems.append(f"fields {r!r} do not re-encode to the plaintext {plain!r}")
    if ttl > 0 and now - created > ttl:
        problems.append(f"accepted with age {now - created} > ttl {ttl}")
    del ref
    return bool(problems), f"accepted -> {r!r}; " + "; ".join(problems), None


def replay_open_any(kind):
    def replay(inputs, ob):
        key, aad, ttl, now = inputs["key"], inputs["aad"], inputs["ttl"], inputs["now"]
        mode = inputs.get("aead", "accepts")
        ref = py_reference()
        if inputs.get("b64") == "invalid":
            bad, msg, e = judge_open(kind, b"!!!not-base64!!!", key, aad, ttl, now)
            if not bad and e is not None and py_detail(e) != ref:
                return ReplayResult(True, f"malformed base64 is distinguishable from a failed authentication: {py_detail(e)} vs {ref}")
            return ReplayResult(bad, msg)
        payload = inputs.get("plaintext", b"")
        tok = native_token(kind, payload, key, aad)
        if mode == "rejects":
            raw = bytearray(base64.b64decode(tok))
            raw[-1] ^= 1
            bad, msg, e = judge_open(kind, base64.b64encode(bytes(raw)), key, aad, ttl, now)
            return ReplayResult(bad or e is None, msg)
        try:
            plain = native_plain(payload)
        except Exception as e:
            plain = None
            if not py_400(e):
                return ReplayResult(True, f"_unpack_plaintext({payload!r}) raised {type(e).__name__}")
        bad, msg, e = judge_open(kind, tok, key, aad, ttl, now, expect_plain=plain)
        if isinstance(e, UnicodeDecodeError):
            return ReplayResult(False, "non-UTF-8 text segment (outside the seal image, see ASSUMPTIONS)")
        return ReplayResult(bad, f"{kind} payload={payload!r} ttl={ttl} now={now}: {msg}")

    return replay


def unpacked(S, p):
    """The framed plaintext the opener parsed: p[1:] for the raw codec tag, the decompressed body otherwise."""
    return S.ghost.get("decompressed", B(sub(p.t, 1, z3.Length(p.t) - 1)))


def reencode(plain, call_id, segs):
    parts = [sub(plain.t, 0, 8), call_id.t]
    for s in segs:
        parts += [models._LE[4](z3.Length(s.t)), s.t]
    return B(z3.Concat(*parts))


def created_of(plain):
    return SInt(models._UNLE[8](sub(plain.t, 0, 8)))


def open_any(kind):
    K = KINDS[kind]

    def run(S):
        S.prune_lia = True  # byte-parsing code: reachability is decided by lengths (pyvc/prune.py)
        install_codecs(S)
        now = install_clock(S)
        ref = reference_rejection(S)
        tok, key, aad, ttl = S.bytes("token"), S.bytes("key"), S.bytes("aad"), S.int("ttl")
        P = {}

        def aead_open(S, raw, k, *, aad, version=1):
            S.event("aead_open", raw, k, aad, version)
            if S.choose(2) == 1:
                S.inputs["aead"] = "rejects"
                raise PyRaise(SExc(crypto.SealError, ("token verification failed",)))
            S.inputs["aead"] = "accepts"
            P["p"] = S.bytes("plaintext")  # whatever some earlier seal under this key and AAD carried
            return P["p"]

        S.handlers[crypto.open_bytes] = aead_open
        out = S.outcome(K["open"], tok, key, aad, ttl)
        S.inputs["b64"] = "invalid" if S.events("b64_invalid") else "valid"
        for _, raw, k, a, v in S.events("aead_open"):
            S.oblige(f"O6.{kind}.aead_checks_the_presented_token_under_the_given_key_and_aad", And(eq(raw, B(B64D(tok.t))), k is key, a is aad), kind="pre")
        if out.raised:
            S.oblige(f"O7.{kind}.rejects_only_with_http_400", is_400(out.exc), kind="raises")
            if not is_400(out.exc):
                if exc_is(out.exc, UnicodeDecodeError) and kind == "call":
                    S.note("call-token text segments that are not UTF-8 raise UnicodeDecodeError: outside the seal image (ASSUMPTIONS)")
                return
            if S.events("b64_invalid"):
                S.oblige("O7.uniform.malformed_base64_indistinguishable_from_failed_authentication", same_detail(detail(out.exc), ref), kind="post", witness=f"{kind}:malformed_base64")
            elif "p" not in P:
                S.oblige("O7.uniform.failed_authentication_detail", same_detail(detail(out.exc), ref), kind="post", witness=f"{kind}:failed_authentication")
            return
        p = P.get("p")
        S.oblige(f"O6.{kind}.accepts_only_after_aead_open", p is not None, kind="trace")
        if p is None:
            return
        plain = unpacked(S, p)
        if kind == "cursor":
            state, call_id = out.value
            segs = [state]
        else:
            cs, ty, sch, isch, call_id, sid = out.value
            segs = [cs, B(models.UTF8_ENC(ty.t)), sch, isch, B(models.UTF8_ENC(sid.t))]
        S.oblige(f"O4.{kind}.call_id_is_16_bytes", call_id.length() == 16)
        S.oblige(f"O4.{kind}.fields_reencode_to_the_plaintext", eq(plain, reencode(plain, call_id, segs)))
        S.oblige(f"O5.{kind}.accepted_only_within_ttl", Or(ttl <= 0, now - created_of(plain) <= ttl))
        S.canary(f"O5.{kind}.canary.accepted_only_when_fresh", now <= created_of(plain))
        S.canary(f"O4.{kind}.canary.first_segment_always_empty", segs[0].length() == 0)

    return run


unit(
    "C12.O4b/O5/O7 _open_cursor_token on an arbitrary presented token",
    targets=["vgi_rpc/http/server/_state_token.py::_open_cursor_token", "vgi_rpc/http/server/_state_token.py::_unpack_plaintext"],
    replay=replay_open_any("cursor"),
    min_obligations=12,
)(open_any("cursor"))
unit(
    "C12.O4b/O5/O7 _open_call_token on an arbitrary presented token",
    targets=["vgi_rpc/http/server/_state_token.py::_open_call_token", "vgi_rpc/http/server/_state_token.py::_unpack_plaintext"],
    replay=replay_open_any("call"),
    min_obligations=12,
)(open_any("call"))


# ------------------------------------------------------------------------------------------
# seal -> open inverse on genuine tokens (O4c), expiry (O5), token = b64(envelope) (O9)
# ------------------------------------------------------------------------------------------


def seal_args(S, kind):
    call_id, key, aad, created = S.bytes("call_id"), S.bytes("key"), S.bytes("aad"), S.int("created_at")
    S.assume(And(call_id.length() == 16, created >= 0, created < U64))
    if kind == "cursor":
        state = S.bytes("state")
        S.assume(And(state.length() < U32, state.length() + 28 <= MAXP))
        return [state, call_id, key, aad, created], [state], call_id, key, aad, created
    cs, sch, isch = S.bytes("call_state"), S.bytes("schema"), S.bytes("input_schema")
    ty, sid = S.str("call_state_type"), S.str("stream_id")
    total = cs.length() + sch.length() + isch.length()
    enc_len = lambda s: SInt(z3.Length(models.UTF8_ENC(s.t)))  # noqa: E731
    S.assume(And(cs.length() < U32, sch.length() < U32, isch.length() < U32, enc_len(ty) < 4000, enc_len(sid) < 4000, total + 44 + 8000 <= MAXP))
    return [cs, ty, sch, isch, call_id, sid, key, aad, created], [cs, ty, sch, isch, sid], call_id, key, aad, created


def replay_roundtrip(kind):
    def replay(inputs, ob):
        key, aad, ttl, now, created = inputs["key"], inputs["aad"], inputs["ttl"], inputs["now"], inputs["created_at"]
        call_id = inputs["call_id"]
        if len(call_id) != 16 or not 0 <= created < U64:
            return ReplayResult(False, "model outside the seal preconditions")
        if kind == "cursor":
            args = [inputs["state"], call_id, key, aad, created]
            want = (inputs["state"], call_id)
        else:
            args = [inputs["call_state"], inputs["call_state_type"], inputs["schema"], inputs["input_schema"], call_id, inputs["stream_id"], key, aad, created]
            want = (inputs["call_state"], inputs["call_state_type"], inputs["schema"], inputs["input_schema"], call_id, inputs["stream_id"])
        try:
            tok = KINDS[kind]["seal"](*args)
        except UnicodeEncodeError:
            return ReplayResult(False, "model string not encodable (surrogates)")
        ref = py_reference()
        with patched_clock(now):
            try:
                got = KINDS[kind]["open"](tok, key, aad, ttl)
            except Exception as e:
                expired = ttl > 0 and now - created > ttl
                problems = []
                if not py_400(e):
                    problems.append(f"raised {type(e).__name__}")
                if not expired:
                    problems.append("genuine unexpired token rejected")
                if py_detail(e) != ref:
                    problems.append(f"an expired token is distinguishable from a failed authentication: {py_detail(e)} vs {ref}")
                return ReplayResult(bool(problems), f"{kind} created={created} now={now} ttl={ttl}: " + "; ".join(problems))
        problems = []
        if tuple(got) != want:
            problems.append(f"open(seal(x)) = {got!r} != {want!r}")
        if ttl > 0 and now - created > ttl:
            problems.append(f"accepted with age {now - created} > ttl {ttl}")
        return ReplayResult(bool(problems), f"{kind} created={created} now={now} ttl={ttl}: " + "; ".join(problems))

    return replay


def roundtrip(kind):
    K = KINDS[kind]

    def run(S):
        S.prune_lia = True  # byte-parsing code: reachability is decided by lengths (pyvc/prune.py)
        install_codecs(S)
        now = install_clock(S)
        ref = reference_rejection(S)
        args, fields, call_id, key, aad, created = seal_args(S, kind)
        ttl = S.int("ttl")
        G = {}

        def aead_seal(S, payload, k, *, aad, version=1):
            G.update(payload=payload, key=k, aad=aad, version=version, raw=S.bytes("envelope"))
            S.event("aead_seal")
            return G["raw"]

        def aead_open(S, raw, k, *, aad, version=1):
            # idealised AEAD + verified envelope framing: opens iff this is the sealed envelope, same key, AAD, version
            if S.fork(And(eq(raw, G["raw"]), eq(k, G["key"]), eq(aad, G["aad"]), version == G["version"])):
                return G["payload"]
            raise PyRaise(SExc(crypto.SealError, ("token verification failed",)))

        S.handlers[crypto.seal_bytes] = aead_seal
        S.handlers[crypto.open_bytes] = aead_open
        sealed = S.outcome(K["seal"], *args)
        S.oblige(f"O4c.{kind}.seal_total_under_its_preconditions", sealed.returned and len(S.events("aead_seal")) == 1, kind="raises")
        if not (sealed.returned and G):
            return
        tok = sealed.value
        S.oblige(f"O9.{kind}.token_is_base64_of_the_aead_envelope_only", eq(tok, B(B64E(G["raw"].t))))
        S.oblige(f"O2.{kind}.seal_uses_the_given_key_and_aad", And(G["key"] is key, G["aad"] is aad), kind="pre")
        out = S.outcome(K["open"], tok, key, aad, ttl)
        if out.returned:
            want = tuple(fields[:1] + [call_id]) if kind == "cursor" else (fields[0], fields[1], fields[2], fields[3], call_id, fields[4])
            S.oblige(f"O4c.{kind}.open_inverts_seal", isinstance(out.value, tuple) and len(out.value) == len(want) and And(*[eq(x, y) for x, y in zip(out.value, want)]))
            S.oblige(f"O5.{kind}.genuine_token_accepted_only_within_ttl", Or(ttl <= 0, now - created <= ttl))
            S.canary(f"O5.{kind}.canary.never_accepts_at_the_ttl_boundary", Not(And(ttl > 0, now - created == ttl)))
            return
        S.oblige(f"O7.{kind}.expired_rejected_with_http_400", is_400(out.exc), kind="raises")
        S.oblige(f"O5.{kind}.genuine_token_rejected_only_when_expired", And(ttl > 0, now - created > ttl))
        if is_400(out.exc):
            S.oblige("O7.uniform.expired_indistinguishable_from_failed_authentication", same_detail(detail(out.exc), ref), kind="post", witness=f"{kind}:expired")

    return run


unit(
    "C12.O4c/O5/O9 cursor token: open inverts seal, expiry, token = b64(envelope)",
    targets=["vgi_rpc/http/server/_state_token.py::_seal_cursor_token", "vgi_rpc/http/server/_state_token.py::_open_cursor_token", "vgi_rpc/http/server/_state_token.py::_pack_plaintext"],
    replay=replay_roundtrip("cursor"),
    min_obligations=8,
)(roundtrip("cursor"))
unit(
    "C12.O4c/O5/O9 call token: open inverts seal, expiry, token = b64(envelope)",
    targets=["vgi_rpc/http/server/_state_token.py::_seal_call_token", "vgi_rpc/http/server/_state_token.py::_open_call_token", "vgi_rpc/http/server/_state_token.py::_pack_plaintext"],
    replay=replay_roundtrip("call"),
    min_obligations=8,
)(roundtrip("call"))
